/-
C14 (continued) — field set and removal against the independent path resolver `Nodes.valueAt`
(`SMD/Spec/Nodes.lean`): every path in an object's field set designates a node of the object; removing
S yields an object that contains no member of S and otherwise equals the original.

None of the three statements holds of the model as first written.  Each original is kept as a comment
(`STATEMENT-FALSE`) with concrete counterexamples, each counterexample is refuted by a kernel-checked
`example`, and the closest true statement is proved under a new name with the extra hypotheses:

* `Value` maps are association lists: an object with a repeated key has a shadowed entry the resolver
  cannot reach but the field-set walker visits (hypothesis `C12.canonical`, the form every wire value has);
* validation accepts a non-empty list whose relationship is neither "atomic" nor "associative", whose
  items the walkers address by the invalid path element (hypothesis `listsAssociative`);
* the removing walker never looks at index path elements, so index members of S are ignored and index
  positions shift when items are dropped (hypothesis: no index element in `p`);
* removing a key field of a list item without removing the item changes the item's identity (to
  nothing, or to the schema defaults of the key), so the rewritten item can collide with another path
  (hypothesis: S contains a path through a key field of an item only if it contains the item);
* the removing walker turns an atomic list or map it is invoked on into nothing, the root included
  (hypothesis: `p` does not pass through an atomic node, `throughAtomic`).
-/
import SMD.Proofs.NodeLaws
namespace SMD.C14
open SetTrie NodeLaws

/-! ### schemas and objects of the counterexamples (all types inline, schema `⟨[]⟩`) -/

/-- an untyped scalar -/
def cxScalar : TypeRef := .mk none (.mk (some "untyped") none none) none
/-- a map of scalars -/
def cxInnerMap : TypeRef := .mk none (.mk none none (some (.mk [] [] cxScalar ""))) none
/-- a map of maps of scalars -/
def cxOuterMap : TypeRef := .mk none (.mk none none (some (.mk [] [] cxInnerMap ""))) none
/-- the key "a" twice, with different contents -/
def cxDupValue : Value := .map [("a", .map []), ("a", .map [("x", .int 1)])]
/-- a list of scalars whose relationship is neither atomic nor associative -/
def cxPlainList : TypeRef := .mk none (.mk none (some (.mk cxScalar "" [])) none) none
/-- a set of scalars -/
def cxSet : TypeRef := .mk none (.mk none (some (.mk cxScalar "associative" [])) none) none
/-- an item type whose key field "name" has the default "d" -/
def cxItem : TypeRef :=
  .mk none (.mk none none (some (.mk [.mk "name" cxScalar (some (.str "d")), .mk "x" cxScalar none] [] .zero ""))) none
/-- a list keyed by "name" -/
def cxKeyed : TypeRef := .mk none (.mk none (some (.mk cxItem "associative" ["name"])) none) none
/-- an atomic map of scalars -/
def cxAtomicMap : TypeRef := .mk none (.mk none none (some (.mk [] [] cxScalar "atomic"))) none

/-! ### (1) field-set paths designate nodes -/

-- STATEMENT-FALSE: (a) s = ⟨[]⟩, tr = cxOuterMap, v = cxDupValue = {a: {}, a: {x: 1}}: validation
--   succeeds, the field set contains [.a, .x] (from the second, shadowed entry), the resolver finds the
--   first entry `a`, which has no `x`.  (b) s = ⟨[]⟩, tr = cxPlainList (relationship ""), v = [1]:
--   validation succeeds, the field set is {[<invalid element>]}, which designates nothing.
-- /-- every path in an object's field set designates a node of the object -/
-- theorem fieldset_paths_designate_nodes (s : Schema) (tr : TypeRef) (v : Value) (ps : List Path)
--     (hv : validateV s true tr v = .ok ()) (hfs : fsV s tr v = .ok ps) :
--     ∀ p, p ∈ ps → Nodes.present s tr v p = true

/-- (a) a repeated key -/
example : ¬ (∀ (s : Schema) (tr : TypeRef) (v : Value) (ps : List Path),
    validateV s true tr v = .ok () → fsV s tr v = .ok ps →
      ∀ p, p ∈ ps → Nodes.present s tr v p = true) := by
  intro h
  have h1 := h ⟨[]⟩ cxOuterMap cxDupValue
    [[.field "a"], [.field "a", .field "x"], [.field "a", .field "x"], [.field "a"]] rfl rfl
    [.field "a", .field "x"] (List.mem_cons_of_mem _ List.mem_cons_self)
  have h2 : Nodes.present ⟨[]⟩ cxOuterMap cxDupValue [.field "a", .field "x"] = false := rfl
  rw [h2] at h1
  cases h1

/-- (b) a list that is neither atomic nor associative; the value is canonical -/
example : ¬ (∀ (s : Schema) (tr : TypeRef) (v : Value) (ps : List Path),
    validateV s true tr v = .ok () → C12.canonical v = true → fsV s tr v = .ok ps →
      ∀ p, p ∈ ps → Nodes.present s tr v p = true) := by
  intro h
  have h1 := h ⟨[]⟩ cxPlainList (.list [.int 1]) [[.invalid], [.invalid]] rfl rfl rfl
    [.invalid] List.mem_cons_self
  have h2 : Nodes.present ⟨[]⟩ cxPlainList (.list [.int 1]) [.invalid] = false := rfl
  rw [h2] at h1
  cases h1

/-- every path in the field set of a canonical object, all of whose visited non-empty non-atomic lists
are associative, designates a node of the object -/
theorem fieldset_paths_designate_nodes_of_canonical (s : Schema) (tr : TypeRef) (v : Value) (ps : List Path)
    (hv : validateV s true tr v = .ok ()) (hfs : fsV s tr v = .ok ps)
    (hc : C12.canonical v = true) (hassoc : listsAssociative s tr v = true) :
    ∀ p, p ∈ ps → Nodes.present s tr v p = true :=
  fun p hp => fsV_nodes s v tr ps hv (by rw [← canonical_eq_canon]; exact hc) hassoc hfs p hp

/-! ### (2) after removing S no member of S designates anything -/

-- STATEMENT-FALSE: (a) s = ⟨[]⟩, tr = cxSet, v = [1], S = {[index 0]}, p = [index 0]: the removing
--   walker never matches an index element, the result is [1] and p still designates 1.
--   (b) s = ⟨[]⟩, tr = cxKeyed (key "name" with default "d"), v = [{name: "a", x: 1}],
--   S = {[name="a", .name], [name="d", .x]}, p = [name="d", .x]: the key field of the only item is
--   removed, the item becomes {x: 1} whose identity is the default name="d", and p designates 1.
-- /-- after removing S no member of S designates anything -/
-- theorem remove_drops_members (s : Schema) (tr : TypeRef) (v : Value) (S : SetTrie) (p : Path)
--     (hv : validateV s true tr v = .ok ()) (hS : S.wf = true) (hp : S.has p = true) :
--     Nodes.valueAt s tr (outToValue (removeV s false tr S v)) p = none

/-- (a) an index member -/
example : ¬ (∀ (s : Schema) (tr : TypeRef) (v : Value) (S : SetTrie) (p : Path),
    validateV s true tr v = .ok () → S.wf = true → S.has p = true →
      Nodes.valueAt s tr (outToValue (removeV s false tr S v)) p = none) := by
  intro h
  have h1 := h ⟨[]⟩ cxSet (.list [.int 1]) (ofPaths [[.index 0]]) [.index 0] rfl rfl rfl
  have h2 : Nodes.valueAt ⟨[]⟩ cxSet
      (outToValue (removeV ⟨[]⟩ false cxSet (ofPaths [[.index 0]]) (.list [.int 1]))) [.index 0] =
      some (.int 1) := rfl
  rw [h2] at h1
  cases h1

/-- the set of counterexample (b) -/
def cxKeySet : SetTrie :=
  ofPaths [[.key [("name", .str "a")], .field "name"], [.key [("name", .str "d")], .field "x"]]

/-- (b) a removed key field; `p` has no index element -/
example : ¬ (∀ (s : Schema) (tr : TypeRef) (v : Value) (S : SetTrie) (p : Path),
    validateV s true tr v = .ok () → S.wf = true → S.has p = true → (∀ i, PE.index i ∉ p) →
      Nodes.valueAt s tr (outToValue (removeV s false tr S v)) p = none) := by
  intro h
  have h1 := h ⟨[]⟩ cxKeyed (.list [.map [("name", .str "a"), ("x", .int 1)]]) cxKeySet
    [.key [("name", .str "d")], .field "x"] rfl (by decide) (by decide) (by simp)
  have h2 : Nodes.valueAt ⟨[]⟩ cxKeyed
      (outToValue (removeV ⟨[]⟩ false cxKeyed cxKeySet (.list [.map [("name", .str "a"), ("x", .int 1)]])))
      [.key [("name", .str "d")], .field "x"] = some (.int 1) := rfl
  rw [h2] at h1
  cases h1

/-- after removing S no member of S without index elements designates anything, provided S contains a
path through a key field of a list item only together with the item itself -/
theorem remove_drops_members_of_keysGuarded (s : Schema) (tr : TypeRef) (v : Value) (S : SetTrie) (p : Path)
    (hv : validateV s true tr v = .ok ()) (hS : S.wf = true) (hp : S.has p = true)
    (hidx : ∀ i, PE.index i ∉ p)
    (hguard : ∀ (pre : Path) (fl : FieldList) (k : String) (rest : Path),
      S.has (pre ++ PE.key fl :: PE.field k :: rest) = true → k ∈ fl.map (·.1) →
        S.has (pre ++ [PE.key fl]) = true) :
    Nodes.valueAt s tr (outToValue (removeV s false tr S v)) p = none :=
  removeV_drops s p tr v S hv hS hguard (notIndex_of_no_index hidx) hp

/-! ### (3) a node away from S is untouched -/

-- STATEMENT-FALSE: (a) s = ⟨[]⟩, tr = cxAtomicMap, v = {a: 1}, S = ∅, p = [.a], x = 1: the removing
--   walker turns an atomic map into nothing, whatever S.  (b) s = ⟨[]⟩, tr = cxSet, v = [1, 2],
--   S = {[value 1]}, p = [index 1], x = 2: the item 1 is dropped and position 1 is vacant.
--   (c) s = ⟨[]⟩, tr = cxKeyed, v = [{name: "a", x: 1}, {name: "d", x: 2}], S = {[name="a", .name]},
--   p = [name="d", .x], x = 2: the first item loses its key field, takes the default identity name="d"
--   and shadows the second one: p designates 1 afterwards.
-- /-- a node that is neither at nor beneath nor above a member of S is untouched by the removal -/
-- theorem remove_keeps_outside (s : Schema) (tr : TypeRef) (v : Value) (S : SetTrie) (p : Path) (x : Value)
--     (hv : validateV s true tr v = .ok ()) (hS : S.wf = true)
--     (hout : (C15.prefixes p).all (fun r => !S.has r) = true)
--     (hbelow : ∀ q, S.has q = true → C15.properPrefix p q = false)
--     (hx : Nodes.valueAt s tr v p = some x) (hne : p ≠ []) :
--     Nodes.valueAt s tr (outToValue (removeV s false tr S v)) p = some x

/-- (a) an atomic root -/
example : ¬ (∀ (s : Schema) (tr : TypeRef) (v : Value) (S : SetTrie) (p : Path) (x : Value),
    validateV s true tr v = .ok () → S.wf = true →
    (C15.prefixes p).all (fun r => !S.has r) = true →
    (∀ q, S.has q = true → C15.properPrefix p q = false) →
    Nodes.valueAt s tr v p = some x → p ≠ [] →
      Nodes.valueAt s tr (outToValue (removeV s false tr S v)) p = some x) := by
  intro h
  have h1 := h ⟨[]⟩ cxAtomicMap (.map [("a", .int 1)]) SetTrie.empty [.field "a"] (.int 1) rfl rfl rfl
    (fun q hq => by rw [C15.has_empty] at hq; cases hq) rfl (by simp)
  have h2 : Nodes.valueAt ⟨[]⟩ cxAtomicMap
      (outToValue (removeV ⟨[]⟩ false cxAtomicMap SetTrie.empty (.map [("a", .int 1)]))) [.field "a"] =
      none := rfl
  rw [h2] at h1
  cases h1

/-- (b) an index path; S has no index element and guards key fields -/
example : ¬ (∀ (s : Schema) (tr : TypeRef) (v : Value) (S : SetTrie) (p : Path) (x : Value),
    validateV s true tr v = .ok () → S.wf = true →
    (C15.prefixes p).all (fun r => !S.has r) = true →
    (∀ q, S.has q = true → C15.properPrefix p q = false) →
    Nodes.valueAt s tr v p = some x → p ≠ [] →
      Nodes.valueAt s tr (outToValue (removeV s false tr S v)) p = some x) := by
  intro h
  have h1 := h ⟨[]⟩ cxSet (.list [.int 1, .int 2]) (ofPaths [[.value (.int 1)]]) [.index 1] (.int 2)
    rfl rfl rfl
    (fun q hq => properPrefix_false_of_length (by rw [length_of_has_ofPaths_singleton hq]; simp))
    rfl (by simp)
  have h2 : Nodes.valueAt ⟨[]⟩ cxSet
      (outToValue (removeV ⟨[]⟩ false cxSet (ofPaths [[.value (.int 1)]]) (.list [.int 1, .int 2])))
      [.index 1] = none := rfl
  rw [h2] at h1
  cases h1

/-- the object of counterexample (c) -/
def cxKeyedValue : Value :=
  .list [.map [("name", .str "a"), ("x", .int 1)], .map [("name", .str "d"), ("x", .int 2)]]

/-- (c) a removed key field; `p` has no index element and passes through no atomic node -/
example : ¬ (∀ (s : Schema) (tr : TypeRef) (v : Value) (S : SetTrie) (p : Path) (x : Value),
    validateV s true tr v = .ok () → S.wf = true →
    (C15.prefixes p).all (fun r => !S.has r) = true →
    (∀ q, S.has q = true → C15.properPrefix p q = false) →
    Nodes.valueAt s tr v p = some x → p ≠ [] → (∀ i, PE.index i ∉ p) → throughAtomic s tr v p = false →
      Nodes.valueAt s tr (outToValue (removeV s false tr S v)) p = some x) := by
  intro h
  have h1 := h ⟨[]⟩ cxKeyed cxKeyedValue (ofPaths [[.key [("name", .str "a")], .field "name"]])
    [.key [("name", .str "d")], .field "x"] (.int 2) rfl (by decide) (by decide)
    (fun q hq => properPrefix_false_of_length (by rw [length_of_has_ofPaths_singleton hq]; simp))
    rfl (by simp) (by simp) (by decide)
  have h2 : Nodes.valueAt ⟨[]⟩ cxKeyed
      (outToValue (removeV ⟨[]⟩ false cxKeyed (ofPaths [[.key [("name", .str "a")], .field "name"]])
        cxKeyedValue))
      [.key [("name", .str "d")], .field "x"] = some (.int 1) := rfl
  rw [h2] at h1
  cases h1

/-- a node designated by a path without index elements that passes through no atomic node, and that is
neither at nor beneath nor above a member of S, is untouched by the removal, provided S contains a path
through a key field of a list item only together with the item itself -/
theorem remove_keeps_outside_of_keysGuarded (s : Schema) (tr : TypeRef) (v : Value) (S : SetTrie) (p : Path)
    (x : Value)
    (hv : validateV s true tr v = .ok ()) (hS : S.wf = true)
    (hout : (C15.prefixes p).all (fun r => !S.has r) = true)
    (hbelow : ∀ q, S.has q = true → C15.properPrefix p q = false)
    (hx : Nodes.valueAt s tr v p = some x) (hne : p ≠ [])
    (hidx : ∀ i, PE.index i ∉ p)
    (hguard : ∀ (pre : Path) (fl : FieldList) (k : String) (rest : Path),
      S.has (pre ++ PE.key fl :: PE.field k :: rest) = true → k ∈ fl.map (·.1) →
        S.has (pre ++ [PE.key fl]) = true)
    (hatomic : throughAtomic s tr v p = false) :
    Nodes.valueAt s tr (outToValue (removeV s false tr S v)) p = some x := by
  obtain ⟨v', h1, h2⟩ := removeV_keeps s p tr v S x hv hS hguard (notIndex_of_no_index hidx) hatomic
    (fun r hr => by simpa using List.all_eq_true.1 hout r hr) hbelow hx hne
  rw [h1]; exact h2

/-! ### non-vacuity of the re-proved laws: a keyed list inside a map -/

/-- `{items: [...]}` over `cxKeyed` -/
def nvTR : TypeRef := .mk none (.mk none none (some (.mk [.mk "items" cxKeyed none] [] .zero ""))) none
def nvValue : Value := .map [("items", cxKeyedValue)]
/-- the first item and everything in it -/
def nvSet : SetTrie :=
  ofPaths [[.field "items", .key [("name", .str "a")]],
           [.field "items", .key [("name", .str "a")], .field "name"],
           [.field "items", .key [("name", .str "a")], .field "x"]]

example : validateV ⟨[]⟩ true nvTR nvValue = .ok () ∧ C12.canonical nvValue = true ∧
    listsAssociative ⟨[]⟩ nvTR nvValue = true ∧ nvSet.wf = true ∧
    (∃ ps, fsV ⟨[]⟩ nvTR nvValue = .ok ps ∧ ps.length = 6) ∧
    nvSet.has [.field "items", .key [("name", .str "a")], .field "x"] = true ∧
    throughAtomic ⟨[]⟩ nvTR nvValue [.field "items", .key [("name", .str "d")], .field "x"] = false ∧
    Nodes.valueAt ⟨[]⟩ nvTR nvValue [.field "items", .key [("name", .str "d")], .field "x"] = some (.int 2) ∧
    Nodes.valueAt ⟨[]⟩ nvTR (outToValue (removeV ⟨[]⟩ false nvTR nvSet nvValue))
      [.field "items", .key [("name", .str "d")], .field "x"] = some (.int 2) ∧
    Nodes.valueAt ⟨[]⟩ nvTR (outToValue (removeV ⟨[]⟩ false nvTR nvSet nvValue))
      [.field "items", .key [("name", .str "a")], .field "x"] = none :=
  ⟨rfl, rfl, rfl, by decide, ⟨_, rfl, rfl⟩, by decide, by decide, rfl, rfl, rfl⟩

/-- `nvSet` satisfies the key-field hypothesis although it contains a key-field path -/
theorem nvSet_guarded : ∀ (pre : Path) (fl : FieldList) (k : String) (rest : Path),
    nvSet.has (pre ++ PE.key fl :: PE.field k :: rest) = true → k ∈ fl.map (·.1) →
      nvSet.has (pre ++ [PE.key fl]) = true := by
  intro pre fl k rest h _
  unfold nvSet at h ⊢
  rw [SetTrie.has_ofPaths] at h ⊢
  match pre, h with
  | [], h => simp [Path.equals, PE.equals] at h
  | [a], h =>
    simp only [List.cons_append, List.nil_append, List.any_cons, List.any_nil, Path.equals, List.isEmpty_cons,
      Bool.not_false, Bool.true_and, Bool.and_false, Bool.false_or, Bool.or_false, Bool.and_true] at h ⊢
    simp only [Bool.or_eq_true, Bool.and_eq_true] at h
    rcases h with h | h
    · simp [h.1, h.2.1]
    · simp [h.1, h.2.1]
  | a :: b :: pre', h =>
    exfalso
    cases pre' <;> simp [Path.equals] at h

/-- all hypotheses of the two removal laws hold together on this instance -/
example : Nodes.valueAt ⟨[]⟩ nvTR (outToValue (removeV ⟨[]⟩ false nvTR nvSet nvValue))
    [.field "items", .key [("name", .str "a")], .field "x"] = none :=
  remove_drops_members_of_keysGuarded ⟨[]⟩ nvTR nvValue nvSet _ rfl (by decide) (by decide) (by simp)
    nvSet_guarded

example : Nodes.valueAt ⟨[]⟩ nvTR (outToValue (removeV ⟨[]⟩ false nvTR nvSet nvValue))
    [.field "items", .key [("name", .str "d")], .field "x"] = some (.int 2) :=
  remove_keeps_outside_of_keysGuarded ⟨[]⟩ nvTR nvValue nvSet _ _ rfl (by decide) (by decide)
    (fun q hq => by
      unfold nvSet at hq
      rw [SetTrie.has_ofPaths] at hq
      match q, hq with
      | [], hq => simp [Path.equals] at hq
      | [a], hq => simp [Path.equals] at hq
      | [a, b], hq => exact properPrefix_false_of_length (by simp)
      | [a, b, c], hq =>
        simp only [List.any_cons, List.any_nil, Path.equals, List.isEmpty_cons, Bool.not_false, Bool.true_and,
          Bool.and_false, Bool.false_or, Bool.or_false, Bool.and_true, Bool.or_eq_true, Bool.and_eq_true] at hq
        have hb : PE.equals (PE.key [("name", .str "a")]) b = true := by
          rcases hq with hq | hq <;> exact hq.2.1
        have hb' : PE.equals (PE.key [("name", .str "d")]) b = false := by
          cases h : PE.equals (PE.key [("name", .str "d")]) b with
          | false => rfl
          | true => exact absurd (PE.equals_trans hb (PE.equals_symm_of h)) (by decide)
        simp [C15.properPrefix, hb']
      | a :: b :: c :: d :: q', hq => simp [Path.equals] at hq)
    rfl (by simp) (by simp) nvSet_guarded (by decide)

end SMD.C14
