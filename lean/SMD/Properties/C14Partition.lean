/-
C14 — the partition law: "For any set S of leaf fields (key fields of surviving items excluded), removing
S yields an object that contains no member of S and otherwise equals the original, extracting S with
key fields yields a valid object containing only S and the keys that locate it, and merging the two
gives back the original."

None of the three statements holds of the model as first written.  Each original is kept as a comment
(`STATEMENT-FALSE`) with concrete counterexamples (`SMD/Proofs/PartitionCounterexamples.lean`), each is
refuted by a kernel-checked `example`, and the closest true statement is proved under a new name:

* degenerate values: an empty map (or list) contributes no path to the field set and is extracted as
  nothing (hypothesis `Part.plain`: no empty list or map anywhere; explicit nulls are allowed);
* a non-empty list that is neither atomic nor associative passes validation, and its items are all
  addressed by the invalid path element (hypothesis `listsAssociative`, as in C14Nodes);
* removing a key field of a keyed-list item without the item changes the item's identity (hypothesis:
  S contains a path through a key field of an item only together with the item, as in C14Nodes); an item
  all of whose fields are removed is left as null, which the field-set walker addresses by the invalid
  path element (hypothesis: no member of S passes through the invalid path element — no path of the
  field set of a valid object whose lists are associative does);
* the merge emits the items found only on the left before those found only on the right, so when a
  whole list item (a set member, an atomic item) is a member of S the merged list is a reordering of the
  original: `Value.equals` (positional on lists) is too strong.  The law is proved with `Value.equals`
  for objects without lists (`partition_maps_partial`), and for objects with lists when every member of S
  is an entry of a map (`partition_fields_partial`: no whole list item is removed, so what is left keeps
  every item and the merge keeps their order), under the hypotheses above and two more: the key fields
  carried by keyed-list items are scalars (`keysScalar`, as in C12: a key field that is a map is extracted
  as null, which changes the identity of the extracted item), and S is not empty when the object is a
  list (the extraction of nothing is null, and merging null over a list whose type may also be a map
  yields null).
-/
import SMD.Proofs.PartitionLaws
namespace SMD.C14
open SMD.Counter14

/-! ### (1) extracting all leaves -/

-- STATEMENT-FALSE: (a) s = ⟨[]⟩, tv = {} : map of scalars (`Counter14.emptyTV`): the field set is empty,
--   the extraction of the empty set from an empty map is nothing (null), and null does not equal {}.
--   (b) s = ⟨[]⟩, tv = [{x: 1}, {x: 2}] : a list of maps with relationship "" (`Counter14.twoTV`, no empty
--   container): validation succeeds, both items carry the invalid path element, the field set is
--   {[<invalid>]}, and extracting it gives [null, null].
-- /-- extracting all leaf paths of the field set reproduces the object -/
-- theorem extract_all_leaves (s : Schema) (tv : TV) (fs : SetTrie)
--     (hv : validateV s false tv.type tv.value = .ok ()) (hc : C12.canonical tv.value = true)
--     (hfs : toFieldSet s tv = .ok fs) :
--     Value.equals (extractItemsTV s tv fs.leaves false).value tv.value = true

/-- (a) an empty map; its lists (none) are associative -/
example : ¬ (∀ (s : Schema) (tv : TV) (fs : SetTrie),
    validateV s false tv.type tv.value = .ok () → C12.canonical tv.value = true →
    listsAssociative s tv.type tv.value = true → toFieldSet s tv = .ok fs →
      Value.equals (extractItemsTV s tv fs.leaves false).value tv.value = true) := by
  intro h
  have h1 := h ⟨[]⟩ emptyTV _ empty_valid empty_canonical empty_assoc empty_fs
  rw [empty_extract] at h1
  cases h1

/-- (b) a list that is neither atomic nor associative; the object has no empty list or map -/
example : ¬ (∀ (s : Schema) (tv : TV) (fs : SetTrie),
    validateV s false tv.type tv.value = .ok () → C12.canonical tv.value = true →
    Part.plain tv.value = true → toFieldSet s tv = .ok fs →
      Value.equals (extractItemsTV s tv fs.leaves false).value tv.value = true) := by
  intro h
  have h1 := h ⟨[]⟩ twoTV _ two_valid two_canonical two_plain two_fs
  rw [two_extract] at h1
  cases h1

/-- extracting all leaf paths of the field set reproduces the object, for objects without empty lists or
maps all of whose visited non-atomic lists are associative -/
theorem extract_all_leaves_of_plain (s : Schema) (tv : TV) (fs : SetTrie)
    (hv : validateV s false tv.type tv.value = .ok ()) (hc : C12.canonical tv.value = true)
    (hfs : toFieldSet s tv = .ok fs)
    (hassoc : listsAssociative s tv.type tv.value = true) (hplain : Part.plain tv.value = true) :
    Value.equals (extractItemsTV s tv fs.leaves false).value tv.value = true := by
  rw [Part.extract_leaves_eq s tv fs hv (by rw [← NodeLaws.canonical_eq_canon]; exact hc) hassoc hplain hfs]
  exact Value.equals_refl _

/-! ### (2) removing S leaves no member of S in the field set -/

-- STATEMENT-FALSE: (a) s = ⟨[]⟩, tv = [{name: "a", x: 1}] : list keyed by "name" with default "d"
--   (`Counter14.keyTV`), S = {[name="a", .name], [name="d", .x]}, p = [name="d", .x]: the key field of the
--   only item is removed, the item becomes {x: 1} whose identity is the default name="d", and p is a
--   member of the field set of the result.  (b) same type, tv = [{x: 1}] (`Counter14.nullTV`),
--   S = {[name="d", .x], [<invalid>]} (no key field is removed), p = [<invalid>]: the only field of the
--   item is removed, the item is left as null, whose path element is the invalid one.
-- /-- removing S leaves no member of S in the field set -/
-- theorem remove_fieldset_disjoint (s : Schema) (tv : TV) (S fr : SetTrie) (p : Path)
--     (hv : validateV s false tv.type tv.value = .ok ()) (hc : C12.canonical tv.value = true)
--     (hS : S.wf = true)
--     (hfr : toFieldSet s (removeItemsTV s tv S) = .ok fr) (hp : S.has p = true) :
--     fr.has p = false

/-- (a) a key field removed without its item -/
example : ¬ (∀ (s : Schema) (tv : TV) (S fr : SetTrie) (p : Path),
    validateV s false tv.type tv.value = .ok () → C12.canonical tv.value = true → S.wf = true →
    toFieldSet s (removeItemsTV s tv S) = .ok fr → S.has p = true → fr.has p = false) := by
  intro h
  have h1 := h ⟨[]⟩ keyTV keySet _ [kD, .field "x"] key_valid key_canonical key_wf key_fs key_has
  rw [key_fs_has] at h1
  cases h1

/-- (b) an item left as null; S removes no key field -/
example : ¬ (∀ (s : Schema) (tv : TV) (S fr : SetTrie) (p : Path),
    validateV s false tv.type tv.value = .ok () → C12.canonical tv.value = true → S.wf = true →
    toFieldSet s (removeItemsTV s tv S) = .ok fr → S.has p = true →
    (∀ (pre : Path) (fl : FieldList) (k : String) (rest : Path),
      S.has (pre ++ PE.key fl :: PE.field k :: rest) = true → k ∈ fl.map (·.1) →
        S.has (pre ++ [PE.key fl]) = true) → fr.has p = false) := by
  intro h
  have h1 := h ⟨[]⟩ nullTV nullSet _ [.invalid] null_valid null_canonical null_wf null_fs null_has null_guarded
  rw [null_fs_has] at h1
  cases h1

/-- removing S leaves no member of S in the field set, provided S contains a path through a key field
of a list item only together with the item itself, and no path through the invalid path element -/
theorem remove_fieldset_disjoint_of_keysGuarded (s : Schema) (tv : TV) (S fr : SetTrie) (p : Path)
    (hv : validateV s false tv.type tv.value = .ok ()) (_hc : C12.canonical tv.value = true)
    (hS : S.wf = true)
    (hfr : toFieldSet s (removeItemsTV s tv S) = .ok fr) (hp : S.has p = true)
    (hguard : ∀ (pre : Path) (fl : FieldList) (k : String) (rest : Path),
      S.has (pre ++ PE.key fl :: PE.field k :: rest) = true → k ∈ fl.map (·.1) →
        S.has (pre ++ [PE.key fl]) = true)
    (hinv : ∀ q, S.has q = true → PE.invalid ∉ q) :
    fr.has p = false :=
  Part.removeItemsTV_disjoint s tv S fr p hv hS hguard hinv hfr hp

/-! ### (3) the partition law -/

-- STATEMENT-FALSE: s = ⟨[]⟩, tv = [1, 2, 3] : set of scalars (`Counter14.setTV`), S = {[value 2]} (a leaf of
--   the field set, no key field anywhere): what is left is [1, 3], what is taken is [2], and the merge
--   emits the left-only items first: back = [1, 3, 2], which `Value.equals` (positional) tells from
--   [1, 2, 3].
-- /-- the partition law: remove(S) merged with extract(S, with key fields) is the original, for a set S
-- of leaf paths of the object that are not key fields -/
-- theorem partition (s : Schema) (tv back : TV) (fs S : SetTrie)
--     (hv : validateV s false tv.type tv.value = .ok ()) (hc : C12.canonical tv.value = true)
--     (hfs : toFieldSet s tv = .ok fs) (hS : S.wf = true)
--     (hleaves : ∀ p, S.has p = true → fs.leaves.has p = true)
--     (hnokeys : ∀ p, S.has p = true → ∀ q ∈ keyFieldPaths p, q ≠ p)
--     (hm : mergeTV s (removeItemsTV s tv S) (extractItemsTV s tv S true) = .ok back) :
--     Value.equals back.value tv.value = true

/-- a member removed from the middle of a set comes back at the end -/
example : ¬ (∀ (s : Schema) (tv back : TV) (fs S : SetTrie),
    validateV s false tv.type tv.value = .ok () → C12.canonical tv.value = true →
    toFieldSet s tv = .ok fs → S.wf = true →
    (∀ p, S.has p = true → fs.leaves.has p = true) →
    (∀ p, S.has p = true → ∀ q ∈ keyFieldPaths p, q ≠ p) →
    mergeTV s (removeItemsTV s tv S) (extractItemsTV s tv S true) = .ok back →
      Value.equals back.value tv.value = true) := by
  intro h
  have h1 := h ⟨[]⟩ setTV _ setFS midSet set_valid set_canonical set_fs mid_wf mid_leaves mid_nokeys set_merge
  rw [set_not_equal] at h1
  cases h1

/-- nothing removed from a list whose type may also be a map: the merge with the extracted null is null -/
example : ¬ (∀ (s : Schema) (tv back : TV) (fs S : SetTrie),
    validateV s false tv.type tv.value = .ok () → C12.canonical tv.value = true →
    toFieldSet s tv = .ok fs → S.wf = true →
    (∀ p, S.has p = true → fs.leaves.has p = true) →
    (∀ p, S.has p = true → ∀ q ∈ keyFieldPaths p, q ≠ p) →
    listsAssociative s tv.type tv.value = true → Part.plain tv.value = true →
    keysScalar s tv.type tv.value = true →
    (∀ p, S.has p = true → ∃ q k, p = q ++ [PE.field k]) →
    mergeTV s (removeItemsTV s tv S) (extractItemsTV s tv S true) = .ok back →
      Value.equals back.value tv.value = true) := by
  intro h
  have hnone : ∀ p, (SetTrie.ofPaths ([] : List Path)).has p = true → False := by
    intro p hp; rw [show SetTrie.ofPaths ([] : List Path) = SetTrie.empty from rfl, SetTrie.has_empty] at hp; cases hp
  have h1 := h ⟨[]⟩ unionTV _ _ (SetTrie.ofPaths []) union_valid union_canonical union_fs (SetTrie.wf_ofPaths _)
    (fun p hp => (hnone p hp).elim) (fun p hp => (hnone p hp).elim) union_assoc union_plain union_keys
    (fun p hp => (hnone p hp).elim) union_merge
  rw [union_not_equal] at h1
  cases h1

/-- the partition law for objects without lists (and without empty maps): remove(S) merged with
extract(S, with key fields) is the original, for a set S of leaf paths of the object -/
theorem partition_maps_partial (s : Schema) (tv back : TV) (fs S : SetTrie)
    (hv : validateV s false tv.type tv.value = .ok ()) (hc : C12.canonical tv.value = true)
    (hfs : toFieldSet s tv = .ok fs) (hS : S.wf = true)
    (hleaves : ∀ p, S.has p = true → fs.leaves.has p = true)
    (hnolists : Part.noLists tv.value = true) (hplain : Part.plain tv.value = true)
    (hm : mergeTV s (removeItemsTV s tv S) (extractItemsTV s tv S true) = .ok back) :
    Value.equals back.value tv.value = true := by
  rw [Part.partition_maps_tv s tv back fs S hv (by rw [← NodeLaws.canonical_eq_canon]; exact hc) hnolists hplain
    hfs hS hleaves hm]
  exact Value.equals_refl _

/-- non-vacuity: `{a: {x: 1, y: 2}, b: 3}` with S = {.a.x, .b}; what is left is `{a: {y: 2}}` -/
example : Value.equals nestTV.value nestTV.value = true :=
  partition_maps_partial ⟨[]⟩ nestTV nestTV nestFS nestSet nest_valid nest_canonical nest_fs nest_wf nest_leaves
    nest_nolists nest_plain nest_merge

/-- the partition law for sets of map entries: remove(S) merged with extract(S, with key fields) is the
original, for a set S of leaf paths of the object that are entries of maps (no whole list item) and not
key fields; the object has no empty list or map, its visited non-atomic lists are associative, the key
fields its keyed-list items carry are scalars, and S is not empty if the object is a list -/
theorem partition_fields_partial (s : Schema) (tv back : TV) (fs S : SetTrie)
    (hv : validateV s false tv.type tv.value = .ok ()) (hc : C12.canonical tv.value = true)
    (hfs : toFieldSet s tv = .ok fs) (hS : S.wf = true)
    (hleaves : ∀ p, S.has p = true → fs.leaves.has p = true)
    (hnokeys : ∀ p, S.has p = true → ∀ q ∈ keyFieldPaths p, q ≠ p)
    (hassoc : listsAssociative s tv.type tv.value = true) (hplain : Part.plain tv.value = true)
    (hkeys : keysScalar s tv.type tv.value = true)
    (hfields : ∀ p, S.has p = true → ∃ q k, p = q ++ [PE.field k])
    (hroot : tv.value.isList = true → S.isEmpty = false)
    (hm : mergeTV s (removeItemsTV s tv S) (extractItemsTV s tv S true) = .ok back) :
    Value.equals back.value tv.value = true := by
  rw [Part.partition_fields_tv s tv back fs S hv (by rw [← NodeLaws.canonical_eq_canon]; exact hc) hassoc hplain
    hkeys hfs hS hleaves hnokeys hfields hroot hm]
  exact Value.equals_refl _

-- TODO-UNPROVED: the general law, for a set S that may hold whole list items (set members, atomic items):
--   the merged list is then a reordering of the original, so the conclusion has to be the empty
--   comparison (equality up to the order of list members), under the hypotheses of
--   `partition_fields_partial` without `hfields`:
-- theorem partition_general (s : Schema) (tv back : TV) (fs S : SetTrie) … (hm : mergeTV s (removeItemsTV s tv S)
--     (extractItemsTV s tv S true) = .ok back) : ∃ c, compareTV s tv back = .ok c ∧ c.isSame = true

/-- non-vacuity: `{items: [{name: a, x: 1}, {name: d, x: 2}]}` (list keyed by "name") with
S = {.items[name=a].x}; what is left is `{items: [{name: a}, {name: d, x: 2}]}`, what is taken is
`{items: [{name: a, x: 1}]}` (the key field comes with the member) -/
example : Value.equals itemsTV.value itemsTV.value = true :=
  partition_fields_partial ⟨[]⟩ itemsTV itemsTV itemsFS itemsSet items_valid items_canonical items_fs items_wf
    items_leaves items_nokeys items_assoc items_plain items_keys items_fields (fun h => by cases h) items_merge

end SMD.C14
