/-
C15 — field sets behave as mathematical sets of paths.

Statements are about the executable trie model `SMD/Model/SetTrie.lean` (a transcription of the
two-cursor loops of `fieldpath/set.go` and `fieldpath/element.go`), for every trie satisfying the
representation invariant `SetTrie.wf` (`SMD/Spec/SetWF.lean`).  Membership is `has` (the model of
`Set.Has`), i.e. membership up to `PathElement.Equals`, which identifies `1` and `1.0`.
The model is tied to the Go code by the `set` correspondence domain.
-/
import SMD.Proofs.SetAlgebra
namespace SMD.C15
open SetTrie

/-- all non-empty prefixes of a path, the path itself included -/
def prefixes : Path → List Path
  | [] => []
  | pe :: rest => [pe] :: (prefixes rest).map (fun p => pe :: p)

/-- `q` is a proper prefix of `r`, element-wise up to `Equals` -/
def properPrefix : Path → Path → Bool
  | [], _ :: _ => true
  | a :: as, b :: bs => PE.equals a b && properPrefix as bs
  | _, _ => false

/-- the fixed total order in which `Iterate` visits paths: at every node the one-element paths
(members) first in element order, then longer paths by first element, recursively -/
def iterCmp : Path → Path → Ordering
  | [], [] => .eq
  | [], _ :: _ => .lt
  | _ :: _, [] => .gt
  | [a], [b] => PE.compare a b
  | [_], _ :: _ :: _ => .lt
  | _ :: _ :: _, [_] => .gt
  | a :: a' :: as, b :: b' :: bs =>
    match PE.compare a b with
    | .eq => iterCmp (a' :: as) (b' :: bs)
    | c => c

/-! ### the helper definitions above coincide with their copies used in `SMD.Proofs.SetAlgebra` -/
private theorem prefixes_eq (q : Path) : prefixes q = prefixesOf q := by
  induction q with
  | nil => rfl
  | cons pe rest ih => simp [prefixes, prefixesOf, ih]
private theorem properPrefix_eq (p q : Path) : properPrefix p q = isProperPrefix p q := by
  induction p generalizing q with
  | nil => cases q <;> rfl
  | cons a as ih => cases q <;> simp [properPrefix, isProperPrefix, ih]
private theorem iterCmp_eq (p q : Path) : iterCmp p q = iterOrd p q := by
  fun_induction iterCmp p q <;> simp_all [iterOrd]

/-! ### the invariant is established and preserved (closure) -/
theorem wf_empty : empty.wf = true := SetTrie.wf_empty
theorem wf_insert (p : Path) (s : SetTrie) : s.wf = true → (insert p s).wf = true := SetTrie.wf_insert p s
theorem wf_ofPaths (ps : List Path) : (ofPaths ps).wf = true := SetTrie.wf_ofPaths ps
theorem wf_union (a b : SetTrie) : a.wf = true → b.wf = true → (union a b).wf = true := SetTrie.wf_union a b
theorem wf_inter (a b : SetTrie) : a.wf = true → b.wf = true → (inter a b).wf = true := SetTrie.wf_inter a b
theorem wf_diff (a b : SetTrie) : a.wf = true → b.wf = true → (diff a b).wf = true := SetTrie.wf_diff a b
theorem wf_rdiff (a b : SetTrie) : a.wf = true → b.wf = true → (rdiff a b).wf = true := SetTrie.wf_rdiff a b
theorem wf_leaves (a : SetTrie) : a.wf = true → (leaves a).wf = true := SetTrie.wf_leaves a
theorem wf_withPrefix (a : SetTrie) (pe : PE) : a.wf = true → (withPrefix pe a).wf = true := SetTrie.wf_withPrefix pe a

/-! ### refinement: every operation is the set operation on paths -/
theorem has_empty (q : Path) : has q empty = false := SetTrie.has_empty q
theorem has_insert (s : SetTrie) (p q : Path) : s.wf = true →
    has q (insert p s) = ((!p.isEmpty && Path.equals p q) || has q s) := fun _ => SetTrie.has_insert p q s
theorem has_ofPaths (ps : List Path) (q : Path) :
    has q (ofPaths ps) = ps.any (fun p => !p.isEmpty && Path.equals p q) := SetTrie.has_ofPaths ps q
theorem has_union (a b : SetTrie) (q : Path) : a.wf = true → b.wf = true →
    has q (union a b) = (has q a || has q b) := SetTrie.has_union q a b
theorem has_inter (a b : SetTrie) (q : Path) : a.wf = true → b.wf = true →
    has q (inter a b) = (has q a && has q b) := SetTrie.has_inter q a b
theorem has_diff (a b : SetTrie) (q : Path) : a.wf = true → b.wf = true →
    has q (diff a b) = (has q a && !has q b) := SetTrie.has_diff q a b
/-- recursive difference drops members at or beneath the other set's members -/
theorem has_rdiff (a b : SetTrie) (q : Path) : a.wf = true → b.wf = true →
    has q (rdiff a b) = (has q a && !(prefixes q).any (fun r => has r b)) := by
  rw [prefixes_eq]; exact SetTrie.has_rdiff q a b
/-- leaves = members with no member beneath them -/
theorem has_leaves (a : SetTrie) (q : Path) : a.wf = true →
    has q (leaves a) = (has q a && !(paths a).any (fun r => properPrefix q r)) := by
  simp only [properPrefix_eq]; exact SetTrie.has_leaves q a
theorem has_withPrefix (a : SetTrie) (pe : PE) (q : Path) : a.wf = true → q ≠ [] →
    has q (withPrefix pe a) = has (pe :: q) a := fun _ hq => SetTrie.has_withPrefix pe a hq

/-! ### observations: size, emptiness, iteration, equality -/
theorem has_iff_mem_paths (a : SetTrie) (q : Path) : a.wf = true →
    (has q a = true ↔ ∃ p, p ∈ paths a ∧ Path.equals p q = true) := SetTrie.has_iff_mem_paths q a
theorem size_eq_length_paths (a : SetTrie) : size a = (paths a).length := SetTrie.size_eq_length_paths a
theorem isEmpty_iff_no_paths (a : SetTrie) : isEmpty a = true ↔ paths a = [] := SetTrie.isEmpty_iff_paths a
/-- iteration visits each member exactly once, in one fixed total order that does not depend on the set -/
theorem paths_strictly_ascending (a : SetTrie) : a.wf = true →
    (paths a).Pairwise (fun p q => iterCmp p q = .lt) := by
  simp only [iterCmp_eq]; exact SetTrie.paths_strictly_ascending a
theorem paths_no_repeats (a : SetTrie) : a.wf = true →
    (paths a).Pairwise (fun p q => Path.equals p q = false) := SetTrie.paths_no_repeats a
/-- equality is extensional: same members means equal, however the sets were built -/
theorem equals_iff_same_members (a b : SetTrie) : a.wf = true → b.wf = true →
    (equals a b = true ↔ ∀ q, has q a = has q b) := SetTrie.equals_iff_same_members a b
theorem equals_of_perm (ps qs : List Path) (h : ps.Perm qs) : equals (ofPaths ps) (ofPaths qs) = true :=
  SetTrie.equals_of_perm h

/-! ### non-vacuity -/
example : (ofPaths [[.field "a", .index 1], [.field "a"], [.value (.int 1)], [.key [("k", .str "x")], .field "b"]]).wf = true := by
  decide

end SMD.C15
