/-
C15 — field sets behave as mathematical sets of paths.

Statements are about the executable trie model `SMD/Model/SetTrie.lean` (a transcription of the
two-cursor loops of `fieldpath/set.go` and `fieldpath/element.go`), for every trie satisfying the
representation invariant `SetTrie.wf` (`SMD/Spec/SetWF.lean`).  Membership is `has` (the model of
`Set.Has`), i.e. membership up to `PathElement.Equals`, which identifies `1` and `1.0`.
The model is tied to the Go code by the `set` correspondence domain.
-/
import SMD.Proofs.SetAlgebra
namespace SMD.C15
open SetTrie

/-- all non-empty prefixes of a path, the path itself included -/
def prefixes : Path → List Path
  | [] => []
  | pe :: rest => [pe] :: (prefixes rest).map (fun p => pe :: p)

/-- `q` is a proper prefix of `r`, element-wise up to `Equals` -/
def properPrefix : Path → Path → Bool
  | [], _ :: _ => true
  | a :: as, b :: bs => PE.equals a b && properPrefix as bs
  | _, _ => false

/-- the fixed total order in which `Iterate` visits paths: at every node the one-element paths
(members) first in element order, then longer paths by first element, recursively -/
def iterCmp : Path → Path → Ordering
  | [], [] => .eq
  | [], _ :: _ => .lt
  | _ :: _, [] => .gt
  | [a], [b] => PE.compare a b
  | [_], _ :: _ :: _ => .lt
  | _ :: _ :: _, [_] => .gt
  | a :: a' :: as, b :: b' :: bs =>
    match PE.compare a b with
    | .eq => iterCmp (a' :: as) (b' :: bs)
    | c => c

/-! ### the invariant is established and preserved (closure) -/
theorem wf_empty : empty.wf = true := sorry
theorem wf_insert (p : Path) (s : SetTrie) : s.wf = true → (insert p s).wf = true := sorry
theorem wf_ofPaths (ps : List Path) : (ofPaths ps).wf = true := sorry
theorem wf_union (a b : SetTrie) : a.wf = true → b.wf = true → (union a b).wf = true := sorry
theorem wf_inter (a b : SetTrie) : a.wf = true → b.wf = true → (inter a b).wf = true := sorry
theorem wf_diff (a b : SetTrie) : a.wf = true → b.wf = true → (diff a b).wf = true := sorry
theorem wf_rdiff (a b : SetTrie) : a.wf = true → b.wf = true → (rdiff a b).wf = true := sorry
theorem wf_leaves (a : SetTrie) : a.wf = true → (leaves a).wf = true := sorry
theorem wf_withPrefix (a : SetTrie) (pe : PE) : a.wf = true → (withPrefix pe a).wf = true := sorry

/-! ### refinement: every operation is the set operation on paths -/
theorem has_empty (q : Path) : has q empty = false := sorry
theorem has_insert (s : SetTrie) (p q : Path) : s.wf = true →
    has q (insert p s) = ((!p.isEmpty && Path.equals p q) || has q s) := sorry
theorem has_ofPaths (ps : List Path) (q : Path) :
    has q (ofPaths ps) = ps.any (fun p => !p.isEmpty && Path.equals p q) := sorry
theorem has_union (a b : SetTrie) (q : Path) : a.wf = true → b.wf = true →
    has q (union a b) = (has q a || has q b) := sorry
theorem has_inter (a b : SetTrie) (q : Path) : a.wf = true → b.wf = true →
    has q (inter a b) = (has q a && has q b) := sorry
theorem has_diff (a b : SetTrie) (q : Path) : a.wf = true → b.wf = true →
    has q (diff a b) = (has q a && !has q b) := sorry
/-- recursive difference drops members at or beneath the other set's members -/
theorem has_rdiff (a b : SetTrie) (q : Path) : a.wf = true → b.wf = true →
    has q (rdiff a b) = (has q a && !(prefixes q).any (fun r => has r b)) := sorry
/-- leaves = members with no member beneath them -/
theorem has_leaves (a : SetTrie) (q : Path) : a.wf = true →
    has q (leaves a) = (has q a && !(paths a).any (fun r => properPrefix q r)) := sorry
theorem has_withPrefix (a : SetTrie) (pe : PE) (q : Path) : a.wf = true → q ≠ [] →
    has q (withPrefix pe a) = has (pe :: q) a := sorry

/-! ### observations: size, emptiness, iteration, equality -/
theorem has_iff_mem_paths (a : SetTrie) (q : Path) : a.wf = true →
    (has q a = true ↔ ∃ p, p ∈ paths a ∧ Path.equals p q = true) := sorry
theorem size_eq_length_paths (a : SetTrie) : size a = (paths a).length := sorry
theorem isEmpty_iff_no_paths (a : SetTrie) : isEmpty a = true ↔ paths a = [] := sorry
/-- iteration visits each member exactly once, in one fixed total order that does not depend on the set -/
theorem paths_strictly_ascending (a : SetTrie) : a.wf = true →
    (paths a).Pairwise (fun p q => iterCmp p q = .lt) := sorry
theorem paths_no_repeats (a : SetTrie) : a.wf = true →
    (paths a).Pairwise (fun p q => Path.equals p q = false) := sorry
/-- equality is extensional: same members means equal, however the sets were built -/
theorem equals_iff_same_members (a b : SetTrie) : a.wf = true → b.wf = true →
    (equals a b = true ↔ ∀ q, has q a = has q b) := sorry
theorem equals_of_perm (ps qs : List Path) (h : ps.Perm qs) : equals (ofPaths ps) (ofPaths qs) = true := sorry

/-! ### non-vacuity -/
example : (ofPaths [[.field "a", .index 1], [.field "a"], [.value (.int 1)], [.key [("k", .str "x")], .field "b"]]).wf = true := by
  sorry

end SMD.C15
