/-
C15 — the Boolean-algebra laws of field sets, stated with the model of `Set.Equals`.

`C15.lean` characterises each operation pointwise (`has q (union a b) = …`).  The updater and the
typed layer rely on the algebraic consequences (e.g. `managed.Difference`, `Union` of the applied
set with the kept set, `Intersection` with a version's set): these are stated here as equalities
of tries up to `equals` (the model of `Set.Equals`), for all well-formed tries of any size.
Every statement is a corollary of `equals_iff_same_members` and the pointwise characterisations,
so it inherits their tie to `fieldpath/set.go` through the `set` correspondence domain.
-/
import SMD.Properties.C15
namespace SMD.C15
open SetTrie

private theorem eq_of_pointwise {a b : SetTrie} (ha : a.wf = true) (hb : b.wf = true)
    (h : ∀ q, has q a = has q b) : equals a b = true :=
  (SetTrie.equals_iff_same_members a b ha hb).2 h

/-- `Set.Equals` is reflexive, symmetric and transitive on well-formed sets -/
theorem equals_refl (a : SetTrie) (ha : a.wf = true) : equals a a = true :=
  eq_of_pointwise ha ha (fun _ => rfl)
theorem equals_symm (a b : SetTrie) (ha : a.wf = true) (hb : b.wf = true)
    (h : equals a b = true) : equals b a = true :=
  eq_of_pointwise hb ha (fun q => ((SetTrie.equals_iff_same_members a b ha hb).1 h q).symm)
theorem equals_trans (a b c : SetTrie) (ha : a.wf = true) (hb : b.wf = true) (hc : c.wf = true)
    (h1 : equals a b = true) (h2 : equals b c = true) : equals a c = true :=
  eq_of_pointwise ha hc (fun q =>
    ((SetTrie.equals_iff_same_members a b ha hb).1 h1 q).trans
      ((SetTrie.equals_iff_same_members b c hb hc).1 h2 q))

/-! ### union -/
theorem union_comm (a b : SetTrie) (ha : a.wf = true) (hb : b.wf = true) :
    equals (union a b) (union b a) = true := by
  refine eq_of_pointwise (wf_union a b ha hb) (wf_union b a hb ha) (fun q => ?_)
  rw [has_union a b q ha hb, has_union b a q hb ha, Bool.or_comm]
theorem union_assoc (a b c : SetTrie) (ha : a.wf = true) (hb : b.wf = true) (hc : c.wf = true) :
    equals (union (union a b) c) (union a (union b c)) = true := by
  have hab := wf_union a b ha hb
  have hbc := wf_union b c hb hc
  refine eq_of_pointwise (wf_union _ c hab hc) (wf_union a _ ha hbc) (fun q => ?_)
  rw [has_union _ c q hab hc, has_union a b q ha hb, has_union a _ q ha hbc, has_union b c q hb hc,
    Bool.or_assoc]
theorem union_idem (a : SetTrie) (ha : a.wf = true) : equals (union a a) a = true := by
  refine eq_of_pointwise (wf_union a a ha ha) ha (fun q => ?_)
  rw [has_union a a q ha ha, Bool.or_self]
theorem union_empty (a : SetTrie) (ha : a.wf = true) : equals (union a empty) a = true := by
  refine eq_of_pointwise (wf_union a empty ha wf_empty) ha (fun q => ?_)
  rw [has_union a empty q ha wf_empty, has_empty, Bool.or_false]

/-! ### intersection -/
theorem inter_comm (a b : SetTrie) (ha : a.wf = true) (hb : b.wf = true) :
    equals (inter a b) (inter b a) = true := by
  refine eq_of_pointwise (wf_inter a b ha hb) (wf_inter b a hb ha) (fun q => ?_)
  rw [has_inter a b q ha hb, has_inter b a q hb ha, Bool.and_comm]
theorem inter_assoc (a b c : SetTrie) (ha : a.wf = true) (hb : b.wf = true) (hc : c.wf = true) :
    equals (inter (inter a b) c) (inter a (inter b c)) = true := by
  have hab := wf_inter a b ha hb
  have hbc := wf_inter b c hb hc
  refine eq_of_pointwise (wf_inter _ c hab hc) (wf_inter a _ ha hbc) (fun q => ?_)
  rw [has_inter _ c q hab hc, has_inter a b q ha hb, has_inter a _ q ha hbc, has_inter b c q hb hc,
    Bool.and_assoc]
theorem inter_idem (a : SetTrie) (ha : a.wf = true) : equals (inter a a) a = true := by
  refine eq_of_pointwise (wf_inter a a ha ha) ha (fun q => ?_)
  rw [has_inter a a q ha ha, Bool.and_self]
theorem inter_empty (a : SetTrie) (ha : a.wf = true) : equals (inter a empty) empty = true := by
  refine eq_of_pointwise (wf_inter a empty ha wf_empty) wf_empty (fun q => ?_)
  rw [has_inter a empty q ha wf_empty, has_empty, Bool.and_false]

/-! ### absorption and distributivity -/
theorem union_inter_absorb (a b : SetTrie) (ha : a.wf = true) (hb : b.wf = true) :
    equals (union a (inter a b)) a = true := by
  have hab := wf_inter a b ha hb
  refine eq_of_pointwise (wf_union a _ ha hab) ha (fun q => ?_)
  rw [has_union a _ q ha hab, has_inter a b q ha hb]
  cases has q a <;> cases has q b <;> rfl
theorem inter_union_absorb (a b : SetTrie) (ha : a.wf = true) (hb : b.wf = true) :
    equals (inter a (union a b)) a = true := by
  have hab := wf_union a b ha hb
  refine eq_of_pointwise (wf_inter a _ ha hab) ha (fun q => ?_)
  rw [has_inter a _ q ha hab, has_union a b q ha hb]
  cases has q a <;> cases has q b <;> rfl
theorem inter_union_distrib (a b c : SetTrie) (ha : a.wf = true) (hb : b.wf = true) (hc : c.wf = true) :
    equals (inter a (union b c)) (union (inter a b) (inter a c)) = true := by
  have hbc := wf_union b c hb hc
  have hab := wf_inter a b ha hb
  have hac := wf_inter a c ha hc
  refine eq_of_pointwise (wf_inter a _ ha hbc) (wf_union _ _ hab hac) (fun q => ?_)
  rw [has_inter a _ q ha hbc, has_union b c q hb hc, has_union _ _ q hab hac, has_inter a b q ha hb,
    has_inter a c q ha hc]
  cases has q a <;> cases has q b <;> cases has q c <;> rfl
theorem union_inter_distrib (a b c : SetTrie) (ha : a.wf = true) (hb : b.wf = true) (hc : c.wf = true) :
    equals (union a (inter b c)) (inter (union a b) (union a c)) = true := by
  have hbc := wf_inter b c hb hc
  have hab := wf_union a b ha hb
  have hac := wf_union a c ha hc
  refine eq_of_pointwise (wf_union a _ ha hbc) (wf_inter _ _ hab hac) (fun q => ?_)
  rw [has_union a _ q ha hbc, has_inter b c q hb hc, has_inter _ _ q hab hac, has_union a b q ha hb,
    has_union a c q ha hc]
  cases has q a <;> cases has q b <;> cases has q c <;> rfl

/-! ### difference -/
theorem diff_self (a : SetTrie) (ha : a.wf = true) : equals (diff a a) empty = true := by
  refine eq_of_pointwise (wf_diff a a ha ha) wf_empty (fun q => ?_)
  rw [has_diff a a q ha ha, has_empty]; cases has q a <;> rfl
theorem diff_empty (a : SetTrie) (ha : a.wf = true) : equals (diff a empty) a = true := by
  refine eq_of_pointwise (wf_diff a empty ha wf_empty) ha (fun q => ?_)
  rw [has_diff a empty q ha wf_empty, has_empty]; cases has q a <;> rfl
/-- De Morgan: removing a union removes both -/
theorem diff_union (a b c : SetTrie) (ha : a.wf = true) (hb : b.wf = true) (hc : c.wf = true) :
    equals (diff a (union b c)) (inter (diff a b) (diff a c)) = true := by
  have hbc := wf_union b c hb hc
  have hab := wf_diff a b ha hb
  have hac := wf_diff a c ha hc
  refine eq_of_pointwise (wf_diff a _ ha hbc) (wf_inter _ _ hab hac) (fun q => ?_)
  rw [has_diff a _ q ha hbc, has_union b c q hb hc, has_inter _ _ q hab hac, has_diff a b q ha hb,
    has_diff a c q ha hc]
  cases has q a <;> cases has q b <;> cases has q c <;> rfl
/-- De Morgan: removing an intersection keeps what either removal keeps -/
theorem diff_inter (a b c : SetTrie) (ha : a.wf = true) (hb : b.wf = true) (hc : c.wf = true) :
    equals (diff a (inter b c)) (union (diff a b) (diff a c)) = true := by
  have hbc := wf_inter b c hb hc
  have hab := wf_diff a b ha hb
  have hac := wf_diff a c ha hc
  refine eq_of_pointwise (wf_diff a _ ha hbc) (wf_union _ _ hab hac) (fun q => ?_)
  rw [has_diff a _ q ha hbc, has_inter b c q hb hc, has_union _ _ q hab hac, has_diff a b q ha hb,
    has_diff a c q ha hc]
  cases has q a <;> cases has q b <;> cases has q c <;> rfl
/-- successive differences remove the union (`managed.Difference` chains) -/
theorem diff_diff (a b c : SetTrie) (ha : a.wf = true) (hb : b.wf = true) (hc : c.wf = true) :
    equals (diff (diff a b) c) (diff a (union b c)) = true := by
  have hab := wf_diff a b ha hb
  have hbc := wf_union b c hb hc
  refine eq_of_pointwise (wf_diff _ c hab hc) (wf_diff a _ ha hbc) (fun q => ?_)
  rw [has_diff _ c q hab hc, has_diff a b q ha hb, has_diff a _ q ha hbc, has_union b c q hb hc]
  cases has q a <;> cases has q b <;> cases has q c <;> rfl
/-- what was removed shares nothing with what remains -/
theorem diff_inter_removed (a b : SetTrie) (ha : a.wf = true) (hb : b.wf = true) :
    equals (inter (diff a b) b) empty = true := by
  have hd := wf_diff a b ha hb
  refine eq_of_pointwise (wf_inter _ b hd hb) wf_empty (fun q => ?_)
  rw [has_inter _ b q hd hb, has_diff a b q ha hb, has_empty]
  cases has q a <;> cases has q b <;> rfl
/-- a set is the union of its part inside `b` and its part outside `b` (the split the updater
makes between fields another manager also owns and fields it owns alone) -/
theorem inter_union_diff (a b : SetTrie) (ha : a.wf = true) (hb : b.wf = true) :
    equals (union (inter a b) (diff a b)) a = true := by
  have hi := wf_inter a b ha hb
  have hd := wf_diff a b ha hb
  refine eq_of_pointwise (wf_union _ _ hi hd) ha (fun q => ?_)
  rw [has_union _ _ q hi hd, has_inter a b q ha hb, has_diff a b q ha hb]
  cases has q a <;> cases has q b <;> rfl
/-- … and the two parts are disjoint -/
theorem inter_diff_disjoint (a b : SetTrie) (ha : a.wf = true) (hb : b.wf = true) :
    isEmpty (inter (inter a b) (diff a b)) = true := by
  have hi := wf_inter a b ha hb
  have hd := wf_diff a b ha hb
  have hw := wf_inter _ _ hi hd
  cases hE : isEmpty (inter (inter a b) (diff a b)) with
  | true => rfl
  | false =>
    obtain ⟨q, hq⟩ := SetTrie.exists_has_of_not_isEmpty _ hw hE
    rw [has_inter _ _ q hi hd, has_inter a b q ha hb, has_diff a b q ha hb] at hq
    revert hq; cases has q a <;> cases has q b <;> simp
/-- union after difference restores at least the removed set: `(a \ b) ∪ b = a ∪ b` -/
theorem diff_union_self (a b : SetTrie) (ha : a.wf = true) (hb : b.wf = true) :
    equals (union (diff a b) b) (union a b) = true := by
  have hd := wf_diff a b ha hb
  refine eq_of_pointwise (wf_union _ b hd hb) (wf_union a b ha hb) (fun q => ?_)
  rw [has_union _ b q hd hb, has_diff a b q ha hb, has_union a b q ha hb]
  cases has q a <;> cases has q b <;> rfl
/-- the recursive difference never keeps more than the plain difference -/
theorem rdiff_subset_diff (a b : SetTrie) (q : Path) (ha : a.wf = true) (hb : b.wf = true)
    (h : has q (rdiff a b) = true) : has q (diff a b) = true := by
  rw [has_rdiff a b q ha hb] at h
  rw [has_diff a b q ha hb]
  have hq : q ≠ [] := by
    intro h0; subst h0; simp [SetTrie.has_nil] at h
  have hmem : q ∈ prefixes q := by
    clear h
    induction q with
    | nil => exact absurd rfl hq
    | cons pe rest ih =>
      cases rest with
      | nil => simp [prefixes]
      | cons r rs =>
        have := ih (by simp)
        show pe :: r :: rs ∈ [pe] :: (prefixes (r :: rs)).map (fun p => pe :: p)
        exact List.mem_cons_of_mem _ (List.mem_map.2 ⟨_, this, rfl⟩)
  cases hqa : has q a with
  | false => simp [hqa] at h
  | true =>
    cases hqb : has q b with
    | false => rfl
    | true =>
      have : (prefixes q).any (fun r => has r b) = true :=
        List.any_eq_true.2 ⟨q, hmem, hqb⟩
      simp [hqa, this] at h

/-- every leaf is a member; a non-empty set has a leaf -/
theorem leaves_subset (a : SetTrie) (q : Path) (ha : a.wf = true)
    (h : has q (leaves a) = true) : has q a = true := by
  rw [has_leaves a q ha] at h
  cases hqa : has q a with
  | true => rfl
  | false => simp [hqa] at h
theorem leaves_isEmpty_iff (a : SetTrie) (ha : a.wf = true) :
    isEmpty (leaves a) = isEmpty a := by
  cases hE : isEmpty a with
  | false => exact SetTrie.not_isEmpty_leaves a ha hE
  | true =>
    cases hL : isEmpty (leaves a) with
    | true => rfl
    | false =>
      obtain ⟨q, hq⟩ := SetTrie.exists_has_of_not_isEmpty _ (wf_leaves a ha) hL
      have := leaves_subset a q ha hq
      rw [SetTrie.has_of_isEmpty q a hE] at this
      exact absurd this (by simp)
/-- removing a set recursively from itself leaves nothing -/
theorem rdiff_self (a : SetTrie) (ha : a.wf = true) : isEmpty (rdiff a a) = true := by
  have hw := wf_rdiff a a ha ha
  cases hE : isEmpty (rdiff a a) with
  | true => rfl
  | false =>
    obtain ⟨q, hq⟩ := SetTrie.exists_has_of_not_isEmpty _ hw hE
    have hd := rdiff_subset_diff a a q ha ha hq
    rw [has_diff a a q ha ha] at hd
    revert hd; cases has q a <;> simp

/-! ### non-vacuity: the laws on concrete, overlapping, nested sets -/
private def exA : SetTrie := ofPaths [[.field "a"], [.field "a", .index 1], [.key [("k", .str "x")], .field "b"]]
private def exB : SetTrie := ofPaths [[.field "a", .index 1], [.value (.int 1)]]
example : exA.wf = true ∧ exB.wf = true := by decide
/-- the two sets overlap and neither contains the other, so no law above holds trivially on them -/
example : isEmpty (inter exA exB) = false ∧ isEmpty (diff exA exB) = false ∧ isEmpty (diff exB exA) = false := by
  have ha : exA.wf = true := by decide
  have hb : exB.wf = true := by decide
  refine ⟨SetTrie.not_isEmpty_of_has (q := [.field "a", .index 1]) ?_,
    SetTrie.not_isEmpty_of_has (q := [.field "a"]) ?_,
    SetTrie.not_isEmpty_of_has (q := [.value (.int 1)]) ?_⟩
  · rw [has_inter exA exB _ ha hb]; decide
  · rw [has_diff exA exB _ ha hb]; decide
  · rw [has_diff exB exA _ hb ha]; decide

end SMD.C15
