/-
C16 — field-set serialisation is canonical, lossless and robust (tree layer).

`Ser.emitWith` / `Ser.readV1With` (`SMD/Model/Serialize.lean`) are the models of `emitContentsV1` /
`readIterV1` over ordered JSON object trees; the key codec (path element <-> key text, produced and
parsed by jsoniter in Go) is a parameter, assumed `Lawful` where a theorem needs it (a named
hypothesis, never an axiom; the concrete codec `Ser.stdCodec` is tied to the Go code by the `ser`
correspondence domain, which also exercises the byte level).
-/
import SMD.Proofs.SerializeRoundTrip
namespace SMD.C16
open SetTrie Ser

/-- every path element is printable; reading a printed key yields an equivalent element; no key is the
membership marker "." -/
structure Lawful (k : KeyCodec) : Prop where
  total : ∀ pe, ∃ s, k.enc pe = some s
  roundtrip : ∀ pe s, k.enc pe = some s → ∃ pe', k.dec s = .ok pe' ∧ PE.equals pe' pe = true
  notDot : ∀ pe, k.enc pe ≠ some "."

/-- whatever the tree and whatever the codec: a successful parse returns a well-formed set
(robustness: arbitrary documents either report an error or yield a set satisfying the invariant) -/
theorem read_well_formed (k : KeyCodec) (j : J) (s : SetTrie) :
    fromJSONWith k j = .ok s → s.wf = true := Ser.wf_fromJSON k j s

/-- serialising a set and parsing it back yields an equal set -/
theorem read_emit (k : KeyCodec) (hk : Lawful k) (s : SetTrie) (hs : s.wf = true) :
    ∃ j, toJSONWith k s = some j ∧ ∃ s', fromJSONWith k j = .ok s' ∧ equals s' s = true :=
  Ser.fromJSON_toJSON k hk.total hk.roundtrip hk.notDot s hs

/-- members whose key is of an unknown element kind are skipped, wherever they stand -/
theorem read_skips_unknown (k : KeyCodec) (a b : List (String × J)) (key : String) (sub : J) (acc : ReadOut)
    (h : k.dec key = .error .unknownType) (hd : key ≠ ".") :
    readMembersWith k (a ++ (key, sub) :: b) acc = readMembersWith k (a ++ b) acc :=
  Ser.readMembers_skip k b key sub h hd a acc

/-- parsing tolerates repeated keys: no error arises from a repetition as such (a document whose
members all parse reads without error) -/
theorem read_no_error_without_bad_keys (k : KeyCodec) (ms : List (String × J))
    (hkeys : ∀ x, x ∈ ms → x.1 = "." ∨ (∃ pe, k.dec x.1 = .ok pe) ∨ k.dec x.1 = .error .unknownType)
    (hsubs : ∀ x, x ∈ ms → x.2 = J.obj []) :
    ∃ s, fromJSONWith k (J.obj ms) = .ok s := Ser.fromJSON_ok_of_keys k ms hkeys hsubs

end SMD.C16
