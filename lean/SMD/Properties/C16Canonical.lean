/-
C16 — "equal sets serialise to identical bytes": a well-formed set is determined by its members as soon
as no two DIFFERENT spellings of one path element are involved (an int and a float of the same value,
+0.0 and -0.0: finding D6 is exactly the failure of this side condition), and the serialisation is a
function of the set.
-/
import SMD.Proofs.CanonicalBytes
namespace SMD.C16
open SetTrie Ser

/-- every number in the value is an int, or a float that is not integral, not a zero, and does not
carry the zero-sign bit: equal such values are identical.

REPAIRED DEFINITION.  The draft read `| .float u _ => u % scale != 0`.  That is not enough: the type
`Value` admits `.float 1 true` (a non-zero float with `negz` set; `mkFloat` never builds one, but
nothing forbids it), which `Value.equals` identifies with `.float 1 false`.
-- STATEMENT-FALSE: `wf_set_unique` under the draft definition fails on
--   s = node [.value (.float 1 true)] [],  t = node [.value (.float 1 false)] []
-- which are well formed, have the same members, satisfy the draft side condition, and s ≠ t; kernel-checked in
-- `SMD.signTwins_loose_counterexample` (SMD/Proofs/CanonicalBytes.lean; `PE.looseNum` is the draft
-- definition) and restated in the `example` below.  The repair adds `&& !negz`. -/
def Value.plainNumbers : Value → Bool
  | .float u negz => u % scale != 0 && !negz
  | .list l => plainNumbersList l
  | .map m => plainNumbersFields m
  | _ => true
where
  plainNumbersList : List Value → Bool
    | [] => true
    | v :: vs => Value.plainNumbers v && plainNumbersList vs
  plainNumbersFields : List (String × Value) → Bool
    | [] => true
    | (_, v) :: rest => Value.plainNumbers v && plainNumbersFields rest

/-- the same for the values inside a path element (key fields, set member values) -/
def PE.plainNumbers : PE → Bool
  | .key k => k.all fun f => Value.plainNumbers f.2
  | .value v => Value.plainNumbers v
  | _ => true

/-- the draft side condition (`PE.looseNum`: floats only required to be non-integral) does not make a
well-formed set unique: negation of the draft `wf_set_unique` on a concrete pair -/
example : ¬ ∀ s t : SetTrie, s.wf = true → t.wf = true →
    s.allPE (fun pe => PE.looseNum pe && pe.keySorted) = true →
    t.allPE (fun pe => PE.looseNum pe && pe.keySorted) = true →
    (∀ p, s.has p = t.has p) → s = t := fun H =>
  have c := signTwins_loose_counterexample
  c.2.2.2.2.2 (H _ _ c.1 c.2.1 c.2.2.1 c.2.2.2.1 c.2.2.2.2.1)

/-! the definitions above are the ones the helper lemmas are stated for -/
mutual
private theorem plainNumbers_eq : ∀ v : Value, Value.plainNumbers v = v.plainNum
  | .null | .bool _ | .int _ | .str _ => by simp [Value.plainNumbers, Value.plainNum]
  | .float u z => by simp [Value.plainNumbers, Value.plainNum]
  | .list l => by simp [Value.plainNumbers, Value.plainNum, plainNumbersList_eq l]
  | .map m => by simp [Value.plainNumbers, Value.plainNum, plainNumbersFields_eq m]
private theorem plainNumbersList_eq : ∀ l : List Value,
    Value.plainNumbers.plainNumbersList l = Value.plainNumList l
  | [] => by simp [Value.plainNumbers.plainNumbersList, Value.plainNumList]
  | v :: vs => by
    simp [Value.plainNumbers.plainNumbersList, Value.plainNumList, plainNumbers_eq v,
      plainNumbersList_eq vs]
private theorem plainNumbersFields_eq : ∀ m : List (String × Value),
    Value.plainNumbers.plainNumbersFields m = Value.plainNumFields m
  | [] => by simp [Value.plainNumbers.plainNumbersFields, Value.plainNumFields]
  | (_, v) :: rest => by
    simp [Value.plainNumbers.plainNumbersFields, Value.plainNumFields, plainNumbers_eq v,
      plainNumbersFields_eq rest]
end

private theorem pe_plainNumbers_eq (pe : PE) : PE.plainNumbers pe = pe.plainNum := by
  cases pe <;> simp [PE.plainNumbers, PE.plainNum, plainNumbers_eq]
  rename_i k
  induction k with
  | nil => simp [Value.plainNumFields]
  | cons x xs ih => simp [Value.plainNumFields, ih]

/-- path elements that spell numbers plainly are identified by `PathElement.Equals` -/
private theorem plain_identified (a b : PE)
    (ha : (PE.plainNumbers a && a.keySorted) = true) (hb : (PE.plainNumbers b && b.keySorted) = true)
    (h : PE.equals a b = true) : a = b := by
  simp only [Bool.and_eq_true, pe_plainNumbers_eq] at ha hb
  exact PE.eq_of_equals a b ha.1 hb.1 h

/-- canonical form: two well-formed sets with the same members, all of whose path elements spell
numbers plainly and have sorted keys, are the same trie -/
theorem wf_set_unique (s t : SetTrie) (hs : s.wf = true) (ht : t.wf = true)
    (hps : s.allPE (fun pe => PE.plainNumbers pe && pe.keySorted) = true)
    (hpt : t.allPE (fun pe => PE.plainNumbers pe && pe.keySorted) = true)
    (h : ∀ p, s.has p = t.has p) : s = t :=
  SetTrie.eq_of_same_members plain_identified s t hs ht hps hpt h

/-- hence equal sets have the same serialisation (the same JSON tree, member for member) -/
theorem equal_sets_same_json (s t : SetTrie) (hs : s.wf = true) (ht : t.wf = true)
    (hps : s.allPE (fun pe => PE.plainNumbers pe && pe.keySorted) = true)
    (hpt : t.allPE (fun pe => PE.plainNumbers pe && pe.keySorted) = true)
    (h : equals s t = true) : toJSON s = toJSON t := by
  rw [wf_set_unique s t hs ht hps hpt ((C15.equals_iff_same_members s t hs ht).1 h)]

/-- the side condition cannot be dropped: finding D6 in the model -/
theorem negative_zero_twins_differ :
    ∃ s t : SetTrie, s.wf = true ∧ t.wf = true ∧ equals s t = true ∧ toJSON s ≠ toJSON t :=
  ⟨zeroTwinA, zeroTwinB, zeroTwins_differ⟩

end SMD.C16
