/-
C16 for the concrete key codec: `Ser.serializePE` / `Ser.deserializePE` (the model of
fieldpath/serialize-pe.go over JSON text, tied to the Go code at byte level by the `ser` domain) satisfy
the round-trip law that SMD/Properties/C16.lean assumes as the named hypothesis `Lawful`, on every path
element they can print (floats outside the printable range are the only ones they cannot) whose key
fields are in the order `FieldList.sort` puts them in (the reader sorts the fields of a `k:` key, the
printer does not).
-/
import SMD.Proofs.StdCodec
namespace SMD.C16
open SetTrie Ser

-- STATEMENT-FALSE: the associative-list key `.key [("b", null), ("a", null)]` is printed as
-- `k:{"b":null,"a":null}` (the printer keeps the order of the fields) and read back as
-- `.key [("a", null), ("b", null)]` (`deserializePE` applies `FieldList.sort`), which `PE.equals`
-- (position-wise on the fields) distinguishes from the original.  A key with a repeated field name, e.g.
-- `[("a", 1), ("a", 2)]`, fails in the same way (`FieldList.sort` reverses equal names).
-- theorem std_roundtrip (pe : PE) (s : String) (h : serializePE pe = some s) :
--     ∃ pe', deserializePE s = .ok pe' ∧ PE.equals pe' pe = true
example : ¬ ∀ (pe : PE) (s : String), serializePE pe = some s →
    ∃ pe', deserializePE s = .ok pe' ∧ PE.equals pe' pe = true := by
  intro h
  have hs : jsonFields [("b", .null), ("a", .null)] = some "\"b\":null,\"a\":null" := rfl
  have h1 := h (.key [("b", .null), ("a", .null)]) ("k:{" ++ "\"b\":null,\"a\":null" ++ "}") rfl
  have h2 := (Ser.std_roundtrip_key_iff _ _ hs).1 h1
  exact absurd h2 (by decide)

/-- reading a printed key yields an equivalent path element, for every element whose key fields are in
sorted order (`PE.keySorted`: `FieldList.sort k` equals `k`; trivially true of field names, values and
indices) -/
theorem std_roundtrip_of_keySorted (pe : PE) (s : String) (h : serializePE pe = some s)
    (hk : pe.keySorted = true) :
    ∃ pe', deserializePE s = .ok pe' ∧ PE.equals pe' pe = true :=
  Ser.std_roundtrip_of_keySorted pe s h hk

/-- the extra hypothesis is exactly what is needed: a printed associative-list key is read back as an
equivalent element if and only if its fields are in sorted order -/
theorem std_roundtrip_key_iff_sorted (k : FieldList) (s : String) (h : serializePE (.key k) = some s) :
    (∃ pe', deserializePE s = .ok pe' ∧ PE.equals pe' (.key k) = true) ↔ (PE.key k).keySorted = true := by
  simp only [serializePE, Option.map_eq_some_iff] at h
  obtain ⟨a, ha, rfl⟩ := h
  exact Ser.std_roundtrip_key_iff k a ha

/-- keys whose field names are strictly ascending (what `KeyByFields` / `FieldList.Sort` produce in Go for
distinct names) have their fields in sorted order -/
theorem keySorted_of_ascending (k : FieldList) (h : k.Pairwise (fun a b => a.1 < b.1)) :
    (PE.key k).keySorted = true := Ser.keySorted_of_ascending k h

/-- no printed key is the membership marker -/
theorem std_notDot (pe : PE) : serializePE pe ≠ some "." := Ser.serializePE_ne_dot pe

/-- every path element without floats (and other than the `invalid` marker) is printable -/
theorem std_total_of_noFloat (pe : PE) (h : pe.noFloat = true ∧ pe ≠ .invalid) :
    (serializePE pe).isSome = true := Ser.serializePE_isSome_of_noFloat pe h.1 h.2

-- STATEMENT-FALSE: the well-formed set `{ [.key [("b", null), ("a", null)]] }` (one member, printable) is
-- emitted as `{"k:{\"b\":null,\"a\":null}":{}}` and read back as `{ [.key [("a", null), ("b", null)]] }`,
-- which `SetTrie.equals` distinguishes from the original.
-- theorem read_emit_std (s : SetTrie) (hs : s.wf = true) (hp : s.allPrintable = true) :
--     ∃ j, toJSON s = some j ∧ ∃ s', fromJSON j = .ok s' ∧ equals s' s = true
example : ¬ ∀ (s : SetTrie), s.wf = true → s.allPrintable = true →
    ∃ j, toJSON s = some j ∧ ∃ s', fromJSON j = .ok s' ∧ equals s' s = true := by
  intro h
  have hs : jsonFields [("b", .null), ("a", .null)] = some "\"b\":null,\"a\":null" := rfl
  have h1 := h (node [.key [("b", .null), ("a", .null)]] []) rfl rfl
  have h2 := Ser.sorted_of_read_emit_key_singleton _ _ hs h1
  exact absurd h2 (by decide)

/-- serialising a set with the concrete codec and parsing it back yields an equal set, for every
well-formed set all of whose path elements are printable and have their key fields in sorted order -/
theorem read_emit_std_of_keysSorted (s : SetTrie) (hs : s.wf = true) (hp : s.allPrintable = true)
    (hk : s.allKeysSorted = true) :
    ∃ j, toJSON s = some j ∧ ∃ s', fromJSON j = .ok s' ∧ equals s' s = true :=
  Ser.fromJSON_toJSON_std s hs hp hk

end SMD.C16
