/-
C16 for the concrete key codec: `Ser.serializePE` / `Ser.deserializePE` (the model of
fieldpath/serialize-pe.go over JSON text, tied to the Go code at byte level by the `ser` domain) satisfy
the round-trip law that SMD/Properties/C16.lean assumes as the named hypothesis `Lawful`, on every path
element they can print (floats outside the printable range are the only ones they cannot) whose key
fields are in the order `FieldList.sort` puts them in (the reader sorts the fields of a `k:` key, the
printer does not).
-/
import SMD.Proofs.StdCodec
import SMD.Proofs.StdCodecCanonical
namespace SMD.C16
open SetTrie Ser

-- STATEMENT-FALSE: the associative-list key `.key [("b", null), ("a", null)]` is printed as
-- `k:{"b":null,"a":null}` (the printer keeps the order of the fields) and read back as
-- `.key [("a", null), ("b", null)]` (`deserializePE` applies `FieldList.sort`), which `PE.equals`
-- (position-wise on the fields) distinguishes from the original.  (A key with a repeated field name in
-- non-descending order, e.g. `[("a", 1), ("a", 2)]`, is left alone: `FieldList.sort` is stable.)
-- theorem std_roundtrip (pe : PE) (s : String) (h : serializePE pe = some s) :
--     ∃ pe', deserializePE s = .ok pe' ∧ PE.equals pe' pe = true
example : ¬ ∀ (pe : PE) (s : String), serializePE pe = some s →
    ∃ pe', deserializePE s = .ok pe' ∧ PE.equals pe' pe = true := by
  intro h
  have hs : jsonKeyFields [("b", .null), ("a", .null)] = some "\"b\":null,\"a\":null" := rfl
  have h1 := h (.key [("b", .null), ("a", .null)]) ("k:{" ++ "\"b\":null,\"a\":null" ++ "}") rfl
  have h2 := (Ser.std_roundtrip_key_iff _ _ hs rfl).1 h1
  exact absurd h2 (by decide)

-- STATEMENT-FALSE: the list index `.index (2^63)` is printed as `i:9223372036854775808`, which
-- `deserializePE` rejects (`strconv.Atoi`: value out of range for Go's 64-bit `int`).  Also: the value
-- `.value (.int 9007199254740993)` (2^53+1, not a float64) is printed as `v:9007199254740993`, which the
-- reader would have to round (Go reads 9007199254740992): `deserializePE` answers `unsupported`
-- (`Ser.deserializePE_value_big`).  Also: the value `.value (.map [("b", null), ("a", null)])` is printed as
-- `v:{"b":null,"a":null}` and read back as the Go map `{a: null, b: null}` (keys sorted;
-- `Ser.deserializePE_value_unsorted`), which `PE.equals` (position-wise on map entries) distinguishes from
-- the original; a map with a repeated key loses all but the last.
-- theorem std_roundtrip_of_keySorted (pe : PE) (s : String) (h : serializePE pe = some s)
--     (hk : pe.keySorted = true) :
--     ∃ pe', deserializePE s = .ok pe' ∧ PE.equals pe' pe = true
example : ¬ ∀ (pe : PE) (s : String), serializePE pe = some s → pe.keySorted = true →
    ∃ pe', deserializePE s = .ok pe' ∧ PE.equals pe' pe = true := by
  intro h
  obtain ⟨pe', h1, _⟩ := h (.index (2 ^ 63)) "i:9223372036854775808" (by decide) rfl
  rw [Ser.deserializePE_index_big] at h1
  cases h1
example : ¬ ∀ (pe : PE) (s : String), serializePE pe = some s → pe.keySorted = true →
    ∃ pe', deserializePE s = .ok pe' ∧ PE.equals pe' pe = true := by
  intro h
  obtain ⟨pe', h1, h2⟩ := h (.value (.map [("b", .null), ("a", .null)])) "v:{\"b\":null,\"a\":null}" (by decide) rfl
  rw [Ser.deserializePE_value_unsorted] at h1
  cases h1
  exact absurd h2 (by decide)

/-- reading a printed key yields an equivalent path element, for every element whose key fields are in
sorted order (`PE.keySorted`: `FieldList.sort k` equals `k`; trivially true of field names, values and
indices) and which lies in the domain on which the codec is exact (`PE.inGoDomain`: a list index fits
Go's `int`; every int inside a key or a value is exactly a float64, e.g. of magnitude at most 2^53; every
map inside a key or a value has strictly ascending keys, the canonical form of a Go map) -/
theorem std_roundtrip_of_keySorted_of_inGoDomain (pe : PE) (s : String) (h : serializePE pe = some s)
    (hk : pe.keySorted = true) (hd : pe.inGoDomain = true) :
    ∃ pe', deserializePE s = .ok pe' ∧ PE.equals pe' pe = true :=
  Ser.std_roundtrip_of_keySorted pe s h hk hd

-- STATEMENT-FALSE: the key `[("a", .int 9007199254740993)]` (2^53+1, not a float64) has its fields in
-- sorted order and is printed as `k:{"a":9007199254740993}`, which `deserializePE` does not read back
-- (`unsupported`: the number would have to be rounded).
-- theorem std_roundtrip_key_iff_sorted (k : FieldList) (s : String) (h : serializePE (.key k) = some s) :
--     (∃ pe', deserializePE s = .ok pe' ∧ PE.equals pe' (.key k) = true) ↔ (PE.key k).keySorted = true
example : ¬ ∀ (k : FieldList) (s : String), serializePE (.key k) = some s →
    ((∃ pe', deserializePE s = .ok pe' ∧ PE.equals pe' (.key k) = true) ↔ (PE.key k).keySorted = true) := by
  intro h
  obtain ⟨pe', h1, _⟩ := (h [("a", .int 9007199254740993)] "k:{\"a\":9007199254740993}" (by decide)).2 (by decide)
  rw [Ser.deserializePE_key_big] at h1
  cases h1

/-- the extra hypothesis `keySorted` is exactly what is needed: a printed associative-list key (inside the
domain on which the codec is exact) is read back as an equivalent element if and only if its fields are in
sorted order -/
theorem std_roundtrip_key_iff_sorted_of_inGoDomain (k : FieldList) (s : String)
    (h : serializePE (.key k) = some s) (hd : (PE.key k).inGoDomain = true) :
    (∃ pe', deserializePE s = .ok pe' ∧ PE.equals pe' (.key k) = true) ↔ (PE.key k).keySorted = true := by
  simp only [serializePE, Option.map_eq_some_iff] at h
  obtain ⟨a, ha, rfl⟩ := h
  exact Ser.std_roundtrip_key_iff k a ha hd

/-- ints of magnitude at most 2^53 are exactly float64s -/
theorem inGoDomain_int_of_le (i : Int) (h : i.natAbs ≤ 2 ^ 53) : (Value.int i).inGoDomain = true := by
  simpa [Value.inGoDomain] using Ser.isFloat64Units_int_of_le i h

/-- keys whose field names are strictly ascending (what `KeyByFields` / `FieldList.Sort` produce in Go for
distinct names) have their fields in sorted order -/
theorem keySorted_of_ascending (k : FieldList) (h : k.Pairwise (fun a b => a.1 < b.1)) :
    (PE.key k).keySorted = true := Ser.keySorted_of_ascending k h

/-- no printed key is the membership marker -/
theorem std_notDot (pe : PE) : serializePE pe ≠ some "." := Ser.serializePE_ne_dot pe

/-- every path element without floats (and other than the `invalid` marker) is printable -/
theorem std_total_of_noFloat (pe : PE) (h : pe.noFloat = true ∧ pe ≠ .invalid) :
    (serializePE pe).isSome = true := Ser.serializePE_isSome_of_noFloat pe h.1 h.2

-- STATEMENT-FALSE: the well-formed set `{ [.key [("b", null), ("a", null)]] }` (one member, printable) is
-- emitted as `{"k:{\"b\":null,\"a\":null}":{}}` and read back as `{ [.key [("a", null), ("b", null)]] }`,
-- which `SetTrie.equals` distinguishes from the original.
-- theorem read_emit_std (s : SetTrie) (hs : s.wf = true) (hp : s.allPrintable = true) :
--     ∃ j, toJSON s = some j ∧ ∃ s', fromJSON j = .ok s' ∧ equals s' s = true
example : ¬ ∀ (s : SetTrie), s.wf = true → s.allPrintable = true →
    ∃ j, toJSON s = some j ∧ ∃ s', fromJSON j = .ok s' ∧ equals s' s = true := by
  intro h
  have hs : jsonKeyFields [("b", .null), ("a", .null)] = some "\"b\":null,\"a\":null" := rfl
  have h1 := h (node [.key [("b", .null), ("a", .null)]] []) rfl rfl
  have h2 := Ser.sorted_of_read_emit_key_singleton _ _ hs rfl h1
  exact absurd h2 (by decide)

-- STATEMENT-FALSE: the well-formed set `{ [.index (2^63)] }` (printable, no keys) is emitted as
-- `{"i:9223372036854775808":{}}`, which the reader rejects (index outside Go's `int`).
-- theorem read_emit_std_of_keysSorted (s : SetTrie) (hs : s.wf = true) (hp : s.allPrintable = true)
--     (hk : s.allKeysSorted = true) :
--     ∃ j, toJSON s = some j ∧ ∃ s', fromJSON j = .ok s' ∧ equals s' s = true
example : ¬ ∀ (s : SetTrie), s.wf = true → s.allPrintable = true → s.allKeysSorted = true →
    ∃ j, toJSON s = some j ∧ ∃ s', fromJSON j = .ok s' ∧ equals s' s = true := by
  intro h
  exact Ser.singleton_std_not_ok (.index (2 ^ 63)) "i:9223372036854775808" (by decide)
    (.inl Ser.deserializePE_index_big) (h (node [.index (2 ^ 63)] []) rfl (by decide) rfl)

/-- serialising a set with the concrete codec and parsing it back yields an equal set, for every
well-formed set all of whose path elements are printable, have their key fields in sorted order and lie
in the domain of the Go type (`PE.inGoDomain`) -/
theorem read_emit_std_of_keysSorted_of_inGoDomain (s : SetTrie) (hs : s.wf = true) (hp : s.allPrintable = true)
    (hk : s.allKeysSorted = true) (hd : s.allInGoDomain = true) :
    ∃ j, toJSON s = some j ∧ ∃ s', fromJSON j = .ok s' ∧ equals s' s = true :=
  Ser.fromJSON_toJSON_std s hs hp hk hd

/-- whatever the key text: a path element returned by `deserializePE` holds maps (inside the fields of a
`k:` key, inside a `v:` value, at every nesting level) in the canonical form of a Go map only — keys
strictly ascending, hence sorted and free of repeats (`jsoniter.Iterator.Read` builds Go maps: the last of
a repeated key wins; the library treats maps as key-sorted) -/
theorem deserialize_maps_canonical (s : String) (pe : PE) (h : deserializePE s = .ok pe) :
    pe.mapsCanonical = true := Ser.deserializePE_mapsCanonical s pe h

/-- `FieldList.sort` is stable: a key whose field names are already in non-descending order (repeats
included) is left as it is -/
theorem sort_stable (k : FieldList) (h : k.Pairwise (fun a b => ¬ b.1 < a.1)) : FieldList.sort k = k :=
  Ser.sort_eq_self_of_nondescending k h

/-- the output of `FieldList.sort` is sorted by name, and sorting again changes nothing -/
theorem sort_sorted (k : FieldList) : (FieldList.sort k).Pairwise (fun a b => ¬ b.1 < a.1) := Ser.sort_sorted k
theorem sort_idempotent (k : FieldList) : FieldList.sort (FieldList.sort k) = FieldList.sort k := Ser.sort_sort k

end SMD.C16
