/-
C17 — equalities and orderings are lawful and agree with each other.

Only property theorems live here; helper lemmas are in `SMD/Proofs`.  Every statement is about the
executable model (`SMD/Model/Value.lean`, `SMD/Model/Path.lean`), which mirrors
`value/value.go`, `value/fields.go`, `fieldpath/element.go`, `fieldpath/path.go`,
`fieldpath/pathelementmap.go` and `fieldpath/set.go:291-311`; the model is tied to the Go code by the
`val` and `pe` correspondence domains.

Carriers: values, key lists (FieldList), path elements, path-element matchers, paths.
For each: compare = 0 exactly when equals; compare is antisymmetric (swap) and transitive; less iff
compare negative; equality reflexive and symmetric; ints and floats compare numerically.
Sorted containers return exactly what was inserted regardless of insertion order.
-/
import SMD.Proofs.ValueOrder
import SMD.Proofs.Containers
namespace SMD.C17

/-- exact numeric value of a number, in float units (2^-1074) -/
def num : Value → Option Int
  | .int i => some (i * scale)
  | .float u _ => some u
  | _ => none

/-! ### values -/
theorem value_compare_eq_iff_equals (a b : Value) : Value.compare a b = .eq ↔ Value.equals a b = true :=
  Value.compare_eq_iff a b
theorem value_compare_swap (a b : Value) : Value.compare b a = (Value.compare a b).swap :=
  Value.compare_swap a b
theorem value_compare_trans {a b c : Value} :
    Value.compare a b ≠ .gt → Value.compare b c ≠ .gt → Value.compare a c ≠ .gt :=
  Value.compare_le_trans
theorem value_less_iff (a b : Value) : Value.less a b = true ↔ Value.compare a b = .lt :=
  Value.less_iff a b
theorem value_equals_refl (a : Value) : Value.equals a a = true := Value.equals_refl a
theorem value_equals_symm (a b : Value) : Value.equals a b = Value.equals b a := Value.equals_symm a b
/-- ints and floats compare numerically (exactly) -/
theorem value_compare_numeric (a b : Value) (x y : Int) (ha : num a = some x) (hb : num b = some y) :
    Value.compare a b = compare x y ∧ Value.equals a b = (x == y) :=
  numv_compare a b x y (by cases a <;> exact ha) (by cases b <;> exact hb)

/-! ### key lists -/
theorem fieldlist_compare_eq_iff_equals (a b : FieldList) : FieldList.compare a b = .eq ↔ FieldList.equals a b = true :=
  FieldList.compare_eq_iff a b
theorem fieldlist_compare_swap (a b : FieldList) : FieldList.compare b a = (FieldList.compare a b).swap :=
  FieldList.compare_swap a b
theorem fieldlist_compare_trans {a b c : FieldList} :
    FieldList.compare a b ≠ .gt → FieldList.compare b c ≠ .gt → FieldList.compare a c ≠ .gt :=
  FieldList.compare_le_trans
theorem fieldlist_less_iff (a b : FieldList) : FieldList.less a b = true ↔ FieldList.compare a b = .lt :=
  FieldList.less_iff a b
theorem fieldlist_equals_refl (a : FieldList) : FieldList.equals a a = true := FieldList.equals_refl a
theorem fieldlist_equals_symm (a b : FieldList) : FieldList.equals a b = FieldList.equals b a :=
  FieldList.equals_symm a b

/-! ### path elements -/
theorem pe_compare_eq_iff_equals (a b : PE) : PE.compare a b = .eq ↔ PE.equals a b = true :=
  PE.compare_eq_iff a b
theorem pe_compare_swap (a b : PE) : PE.compare b a = (PE.compare a b).swap := PE.compare_swap a b
theorem pe_compare_trans {a b c : PE} :
    PE.compare a b ≠ .gt → PE.compare b c ≠ .gt → PE.compare a c ≠ .gt := PE.compare_le_trans
theorem pe_less_iff (a b : PE) : PE.less a b = true ↔ PE.compare a b = .lt := PE.less_iff a b
theorem pe_equals_refl (a : PE) : PE.equals a a = true := PE.equals_refl a
theorem pe_equals_symm (a b : PE) : PE.equals a b = PE.equals b a := PE.equals_symm a b

/-! ### matchers -/
theorem matcher_compare_eq_iff_equals (a b : PEMatcher) : PEMatcher.compare a b = .eq ↔ PEMatcher.equals a b = true :=
  PEMatcher.compare_eq_iff a b
theorem matcher_compare_swap (a b : PEMatcher) : PEMatcher.compare b a = (PEMatcher.compare a b).swap :=
  PEMatcher.compare_swap a b
theorem matcher_compare_trans {a b c : PEMatcher} :
    PEMatcher.compare a b ≠ .gt → PEMatcher.compare b c ≠ .gt → PEMatcher.compare a c ≠ .gt :=
  PEMatcher.compare_le_trans
theorem matcher_less_iff (a b : PEMatcher) : PEMatcher.less a b = true ↔ PEMatcher.compare a b = .lt :=
  PEMatcher.less_iff a b
theorem matcher_equals_refl (a : PEMatcher) : PEMatcher.equals a a = true := PEMatcher.equals_refl a
theorem matcher_equals_symm (a b : PEMatcher) : PEMatcher.equals a b = PEMatcher.equals b a :=
  PEMatcher.equals_symm a b

/-! ### paths -/
theorem path_compare_eq_iff_equals (a b : Path) : Path.compare a b = .eq ↔ Path.equals a b = true :=
  Path.compare_eq_iff a b
theorem path_compare_swap (a b : Path) : Path.compare b a = (Path.compare a b).swap := Path.compare_swap a b
theorem path_compare_trans {a b c : Path} :
    Path.compare a b ≠ .gt → Path.compare b c ≠ .gt → Path.compare a c ≠ .gt := Path.compare_le_trans
theorem path_equals_refl (a : Path) : Path.equals a a = true := Path.equals_refl a
theorem path_equals_symm (a b : Path) : Path.equals a b = Path.equals b a := Path.equals_symm a b

/-! ### sorted containers -/

/-- `PathElementSet` built by any insertion sequence -/
def buildSet (xs : List PE) : List PE := xs.foldl (fun s pe => peInsert pe s) []
/-- `PathElementMap` built by any insertion sequence -/
def buildMap {β : Type} (xs : List (PE × β)) : List (PE × β) := xs.foldl (fun m x => pemInsert x.1 x.2 m) []

theorem set_sorted (xs : List PE) : sortedPEs (buildSet xs) = true :=
  sortedPEs_foldl_peInsert xs [] rfl
/-- lookup returns exactly what was inserted (up to `Equals`) -/
theorem set_has_iff_inserted (xs : List PE) (q : PE) :
    peHas q (buildSet xs) = xs.any (fun x => PE.equals x q) := by
  simpa [peHas, buildSet] using peHas_foldl_peInsert q xs []
/-- …regardless of insertion order -/
theorem set_order_independent (xs ys : List PE) (h : xs.Perm ys) (q : PE) :
    peHas q (buildSet xs) = peHas q (buildSet ys) := by
  rw [set_has_iff_inserted, set_has_iff_inserted, any_perm h]
/-- a map lookup returns the value inserted last under an equal key -/
theorem map_get_last_inserted {β : Type} (xs : List (PE × β)) (q : PE) :
    pemGet q (buildMap xs) = (xs.reverse.find? (fun x => PE.equals x.1 q)).map (·.2) := by
  simpa [pemGet, buildMap] using pemGet_foldl_pemInsert q xs []
/-- the transcribed `sort.Search` loop returns the lower bound of a monotone predicate, which is the
position the linear scans `peHas` / `pemGet` / `getChild` of the model stop at on a sorted slice -/
theorem sortSearch_lower_bound (n : Nat) (f : Nat → Bool)
    (hmono : ∀ i j, i ≤ j → j < n → f i = true → f j = true) :
    sortSearch n f ≤ n ∧ (∀ i, i < sortSearch n f → f i = false) ∧ (sortSearch n f < n → f (sortSearch n f) = true) :=
  sortSearch_spec n f hmono

/-! ### non-vacuity: the laws are exercised on concrete non-trivial instances -/
example : Value.compare (.int 1) (.float scale false) = .eq ∧ Value.equals (.int 1) (.float scale false) = true := by
  simp [Value.compare, Value.equals, cmpInt]
example : num (.int 1) = some scale ∧ num (.float scale false) = some scale := by simp [num]

end SMD.C17
