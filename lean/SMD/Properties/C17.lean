/-
C17 — equalities and orderings are lawful and agree with each other.
Only property theorems live here; helper lemmas are in `SMD/Proofs`.
-/
import SMD.Proofs.ValueOrder
namespace SMD.C17

theorem value_compare_refl (v : Value) : Value.compare v v = .eq := Value.compare_self v

end SMD.C17
