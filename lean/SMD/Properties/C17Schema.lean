/-
C17 — "schema equality relates exactly the structurally identical schemas": `Schema.equals` (the model
of schema/equals.go after the repairs D2, D3) is reflexive, symmetric, transitive, and holds exactly
when the two schemas are the same data (defaults compared with `Value.deepEq`, the model of
reflect.DeepEqual on unstructured data).

`Value.deepEq` compares floats by their exact value only (Go: `-0.0 == 0.0`), while the model value
`Value.float u negz` also carries the sign flag of a zero.  So "the same data" is: identical after
forgetting the sign flags of the float defaults (`eraseNegz`, SMD/Proofs/SchemaEquality.lean); the
three `… ↔ a = b` statements with Lean's `=` are false as first written and are kept below as
comments with kernel-checked counterexamples.
-/
import SMD.Proofs.SchemaEquality
namespace SMD.C17

theorem schema_equals_refl (a : Schema) : Schema.equals a a = true :=
  Schema.equals_refl a

theorem schema_equals_symm (a b : Schema) : Schema.equals a b = Schema.equals b a :=
  Schema.equals_symm a b

theorem schema_equals_trans (a b c : Schema) (h1 : Schema.equals a b = true) (h2 : Schema.equals b c = true) :
    Schema.equals a c = true :=
  Schema.equals_trans a b c h1 h2

/-! ### the counterexample: two defaults `0.0` and `-0.0` -/

/-- a map type with one field `f` whose default is the float zero with sign flag `negz` -/
def cexAtom (negz : Bool) : Atom :=
  .mk none none (some (.mk [.mk "f" TypeRef.zero (some (.float 0 negz))] [] TypeRef.zero ""))
def cexRef (negz : Bool) : TypeRef := .mk none (cexAtom negz) none
def cexSchema (negz : Bool) : Schema := ⟨[⟨"t", cexAtom negz⟩]⟩

theorem cexAtom_ne : cexAtom false ≠ cexAtom true := by
  simp [cexAtom]

-- STATEMENT-FALSE: a = ⟨[⟨"t", A false⟩]⟩, b = ⟨[⟨"t", A true⟩]⟩ where A z is the map atom with the single
-- field `f` of default `Value.float 0 z` (0.0 against -0.0): `Schema.equals a b = true` but `a ≠ b`.
-- theorem schema_equals_iff_eq (a b : Schema) : Schema.equals a b = true ↔ a = b
example : ¬ ∀ a b : Schema, Schema.equals a b = true ↔ a = b := by
  intro h
  have h1 : Schema.equals (cexSchema false) (cexSchema true) = true := by
    simp [Schema.equals, TypeDef.equalsList, TypeDef.equals, cexSchema, cexAtom, Atom.equals, MapT.equals,
      StructField.equalsList, StructField.equals, TypeRef.equals, TypeRef.zero, Atom.none, eqOpt, Value.deepEq]
  have h2 := (h _ _).1 h1
  simp [cexSchema, cexAtom] at h2

-- STATEMENT-FALSE: a = ⟨none, A false, none⟩, b = ⟨none, A true, none⟩ (A as above).
-- theorem typeref_equals_iff_eq (a b : TypeRef) : TypeRef.equals a b = true ↔ a = b
example : ¬ ∀ a b : TypeRef, TypeRef.equals a b = true ↔ a = b := by
  intro h
  have h1 : TypeRef.equals (cexRef false) (cexRef true) = true := by
    simp [cexRef, cexAtom, Atom.equals, MapT.equals,
      StructField.equalsList, StructField.equals, TypeRef.equals, TypeRef.zero, Atom.none, eqOpt, Value.deepEq]
  have h2 := (h _ _).1 h1
  simp [cexRef, cexAtom] at h2

-- STATEMENT-FALSE: a = A false, b = A true (A as above).
-- theorem atom_equals_iff_eq (a b : Atom) : Atom.equals a b = true ↔ a = b
example : ¬ ∀ a b : Atom, Atom.equals a b = true ↔ a = b := by
  intro h
  have h1 : Atom.equals (cexAtom false) (cexAtom true) = true := by
    simp [cexAtom, Atom.equals, MapT.equals,
      StructField.equalsList, StructField.equals, TypeRef.equals, TypeRef.zero, Atom.none, eqOpt, Value.deepEq]
  exact cexAtom_ne ((h _ _).1 h1)

/-! ### the closest true statements -/

/-- equal exactly when identical up to the sign flags of float defaults: every difference in a name, a
relationship, a key list, a field, a default (other than `0.0` against `-0.0`), a union, an element
type, an override or the presence of a member is seen -/
theorem schema_equals_iff_eq_partial (a b : Schema) :
    Schema.equals a b = true ↔ a.eraseNegz = b.eraseNegz :=
  Schema.equals_iff a b

/-- the same for type references and atoms (what `Resolve`'s cache and `Compare`/`Merge` use) -/
theorem typeref_equals_iff_eq_partial (a b : TypeRef) :
    TypeRef.equals a b = true ↔ a.eraseNegz = b.eraseNegz :=
  TypeRef.equals_iff a b

theorem atom_equals_iff_eq_partial (a b : Atom) :
    Atom.equals a b = true ↔ a.eraseNegz = b.eraseNegz :=
  Atom.equals_iff a b

/-- `reflect.DeepEqual` on defaults is equality up to the sign flags -/
theorem value_deepEq_iff_eq_partial (v w : Value) :
    Value.deepEq v w = true ↔ v.eraseNegz = w.eraseNegz :=
  Value.deepEq_iff v w

/-- the original statements hold when no float default of either side carries a set sign flag
(`NegzFree x` is `x.eraseNegz = x`) -/
theorem schema_equals_iff_eq_of_negzFree (a b : Schema) (ha : a.NegzFree) (hb : b.NegzFree) :
    Schema.equals a b = true ↔ a = b :=
  Schema.equals_iff_eq_of_negzFree ha hb

theorem typeref_equals_iff_eq_of_negzFree (a b : TypeRef) (ha : a.NegzFree) (hb : b.NegzFree) :
    TypeRef.equals a b = true ↔ a = b :=
  TypeRef.equals_iff_eq_of_negzFree ha hb

theorem atom_equals_iff_eq_of_negzFree (a b : Atom) (ha : a.NegzFree) (hb : b.NegzFree) :
    Atom.equals a b = true ↔ a = b :=
  Atom.equals_iff_eq_of_negzFree ha hb

/-- the direction of the original statements that is true without a hypothesis -/
theorem schema_equals_of_eq (a b : Schema) (h : a = b) : Schema.equals a b = true :=
  h ▸ Schema.equals_refl a
theorem typeref_equals_of_eq (a b : TypeRef) (h : a = b) : TypeRef.equals a b = true :=
  h ▸ CmpX.TypeRef.equals_refl a
theorem atom_equals_of_eq (a b : Atom) (h : a = b) : Atom.equals a b = true :=
  h ▸ CmpX.Atom.equals_refl a

/-! ### non-vacuity: the sign-free hypothesis holds of ordinary schemas and the erasure is not constant -/
example : (cexSchema false).NegzFree := by
  simp [Schema.NegzFree, Schema.eraseNegz, TypeDef.eraseNegzList, TypeDef.eraseNegz, cexSchema, cexAtom,
    Atom.eraseNegz, MapT.eraseNegz, StructField.eraseNegzList, StructField.eraseNegz, TypeRef.eraseNegz,
    TypeRef.zero, Atom.none, Value.eraseNegz]
example : Schema.equals (cexSchema false) ⟨[]⟩ = false := by
  simp [Schema.equals, TypeDef.equalsList, cexSchema]

end SMD.C17
