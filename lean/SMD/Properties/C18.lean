/-
C18 — a value means the same in every representation (partial by proof).

The agreement of reflection with `encoding/json` is between the library and an external library: it
is decided by the `rfl` correspondence domain (run-time generated Go types, both directions, typed
operations, Set/Delete) and by the representation-independence judges of the `val` domain.  What a
theorem carries here is the contract of the generic map interface on the abstract value that every
representation denotes: setting or deleting an entry changes exactly that entry.
-/
import SMD.Model.GenericMap
namespace SMD.C18

theorem get_after_set_same (k : String) (v : Value) (m : List (String × Value)) :
    lookupField k (mapSet k v m) = some v := by
  induction m with
  | nil => simp [mapSet, lookupField]
  | cons x rest ih =>
    obtain ⟨k', v'⟩ := x
    unfold mapSet
    by_cases h1 : (k == k') = true
    · simp [h1, lookupField]
    · by_cases h2 : k < k'
      · simp [h1, h2, lookupField]
      · simp [h1, h2, lookupField, ih]

theorem get_after_set_other (k j : String) (v : Value) (m : List (String × Value)) (h : j ≠ k) :
    lookupField j (mapSet k v m) = lookupField j m := by
  induction m with
  | nil => simp [mapSet, lookupField, h]
  | cons x rest ih =>
    obtain ⟨k', v'⟩ := x
    unfold mapSet
    by_cases h1 : (k == k') = true
    · have hk : k = k' := by simpa using h1
      subst hk
      simp [lookupField, h]
    · by_cases h2 : k < k'
      · simp [h1, h2, lookupField, h]
      · simp [h1, h2, lookupField, ih]

theorem get_after_delete_same (k : String) (m : List (String × Value)) :
    lookupField k (mapDelete k m) = none := by
  induction m with
  | nil => simp [mapDelete, lookupField]
  | cons x rest ih =>
    obtain ⟨k', v'⟩ := x
    unfold mapDelete
    by_cases h1 : (k == k') = true
    · simp [h1, ih]
    · simp [h1, lookupField, ih]

theorem get_after_delete_other (k j : String) (m : List (String × Value)) (h : j ≠ k) :
    lookupField j (mapDelete k m) = lookupField j m := by
  induction m with
  | nil => simp [mapDelete, lookupField]
  | cons x rest ih =>
    obtain ⟨k', v'⟩ := x
    unfold mapDelete
    by_cases h1 : (k == k') = true
    · have hk : k = k' := by simpa using h1
      subst hk
      simp [lookupField, h, ih]
    · by_cases h2 : (j == k') = true
      · simp [h1, h2, lookupField]
      · simp [h1, h2, lookupField, ih]

/-- `Has` after `Set` / `Delete` -/
theorem has_after_set (k : String) (v : Value) (m : List (String × Value)) : mapHas k (mapSet k v m) = true := by
  simp [mapHas, get_after_set_same]

theorem has_after_delete (k : String) (m : List (String × Value)) : mapHas k (mapDelete k m) = false := by
  simp [mapHas, get_after_delete_same]

/-- non-vacuity -/
example : lookupField "b" (mapSet "b" (.int 2) [("a", .int 1), ("c", .int 3)]) = some (.int 2) ∧
    (mapSet "b" (.int 2) [("a", .int 1), ("c", .int 3)]).map (·.1) = ["a", "b", "c"] := by
  constructor
  · exact get_after_set_same _ _ _
  · decide

end SMD.C18
