/-
C18 — a value built by reflection is indistinguishable from the generic value obtained by encoding the
same data with encoding/json and decoding it: `reflectV` (the model of the library's reflection
wrappers) against `jsonV` (the model of encoding/json; both tied to the real code by the `rfl` domain),
for every Go type of the family of SMD/Spec/GoFamily.lean and every value of it.
-/
import SMD.Proofs.ReflectJSON
namespace SMD.C18

-- STATEMENT-FALSE: `GoVal.hasType .uint (.int i)` only asks for `0 ≤ i`; the datum `.int (2^64)` is not a
-- 64-bit `uint`, and `reflectV .uint (.int (2^64)) = none` (the model reads a `uint` as `int64(uint)`, defined
-- on [0, 2^64) only).
-- theorem reflect_total (t : GoType) (v : GoVal) (ht : GoVal.hasType t v = true) :
--     (reflectV t v).isSome = true
example : ¬ ∀ (t : GoType) (v : GoVal), GoVal.hasType t v = true → (reflectV t v).isSome = true := by
  intro h
  exact absurd (h .uint (.int (2 ^ 64)) (by decide)) (by decide)

/-- reflection never fails on well-typed data (the wrappers panic on nothing the family contains), every
`uint` being within the range of Go's 64-bit `uint` (`GoVal.hasTypeB (2^64)`: `GoVal.hasType` and all
uints below 2^64) -/
theorem reflect_total_of_uintRange (t : GoType) (v : GoVal) (ht : GoVal.hasTypeB (2 ^ 64) t v = true) :
    (reflectV t v).isSome = true :=
  reflectV_total (2 ^ 64) (Int.le_refl _) v t ht

/-- the bounded typing is the typing plus the bound -/
theorem hasType_of_hasTypeB (ub : Int) (t : GoType) (v : GoVal) (ht : GoVal.hasTypeB ub t v = true) :
    GoVal.hasType t v = true := hasTypeB_hasType ub v t ht

/-- on the family, encoding/json succeeds as well -/
theorem json_total_of_family (t : GoType) (v : GoVal) (ht : GoVal.hasType t v = true)
    (hf : t.inFamily = true) (hv : v.inFamily = true) :
    (jsonV t v).isSome = true :=
  jsonV_total v t ht hf hv

-- STATEMENT-FALSE: `struct{U uint}{1<<63}`: the reflection wrappers read the field with
-- `int64(r.Value.Uint())` = -9223372036854775808, encoding/json writes 9223372036854775808
-- (t = `.uint`, v = `.int (2^63)`: r = `.int (-(2^63))`, j = `.int (2^63)`).
-- theorem reflect_equals_json (t : GoType) (v : GoVal) (r j : Value)
--     (ht : GoVal.hasType t v = true) (hf : t.inFamily = true) (hv : v.inFamily = true)
--     (hr : reflectV t v = some r) (hj : jsonV t v = some j) :
--     Value.equals r j = true
example : ¬ ∀ (t : GoType) (v : GoVal) (r j : Value), GoVal.hasType t v = true → t.inFamily = true →
    v.inFamily = true → reflectV t v = some r → jsonV t v = some j → Value.equals r j = true := by
  intro h
  have := h .uint (.int (2 ^ 63)) _ _ (by decide) (by decide) (by decide) reflect_uint_wraps.1 reflect_uint_wraps.2.1
  rw [reflect_uint_wraps.2.2] at this
  cases this

/-- the reflected value equals the JSON round trip (numbers compared numerically: JSON does not keep
the int/float distinction of integral values nor the sign of a zero), every `uint` being below 2^63
(`GoVal.hasTypeB (2^63)`: `GoVal.hasType` and all uints below 2^63 — from 2^63 on the reflected value is the
two's-complement reinterpretation) -/
theorem reflect_equals_json_of_uintBelowInt64 (t : GoType) (v : GoVal) (r j : Value)
    (ht : GoVal.hasTypeB (2 ^ 63) t v = true) (hf : t.inFamily = true) (hv : v.inFamily = true)
    (hr : reflectV t v = some r) (hj : jsonV t v = some j) :
    Value.equals r j = true :=
  reflectV_equals (2 ^ 63) (Int.le_refl _) v t r j ht hf hv hr hj

/-- non-vacuity: a concrete type and value of the family (inline structs three levels deep, an empty
omitempty field, a nil embedded pointer, a float32, a []byte, an interface holding a typed slice, a
`json:"-"` field) satisfy the hypotheses, and both readings produce a value -/
example : GoVal.hasTypeB (2 ^ 63) C18Ex.exT C18Ex.exV = true ∧ GoVal.hasTypeB (2 ^ 64) C18Ex.exT C18Ex.exV = true ∧
    GoVal.hasType C18Ex.exT C18Ex.exV = true ∧ C18Ex.exT.inFamily = true ∧ C18Ex.exV.inFamily = true ∧
    (reflectV C18Ex.exT C18Ex.exV).isSome = true ∧ (jsonV C18Ex.exT C18Ex.exV).isSome = true := by
  decide

/-- the fields of a reflected struct come out in ascending order of JSON name without repeats
(`orderedStructFields`): map iteration and zipping are deterministic -/
theorem reflect_struct_sorted (fs : List GoField) (vals : List GoVal) (m : List (String × Value))
    (hr : reflectV (.struct fs) (.struct vals) = some (.map m)) :
    m.Pairwise (fun a b => a.1 < b.1) :=
  reflectV_struct_sorted fs vals m hr

/-- what omitempty omits is exactly what encoding/json omits (same field, same emptiness): a field is
present in the reflected struct iff it is present in the JSON round trip -/
theorem reflect_same_keys_as_json (fs : List GoField) (vals : List GoVal) (m j : List (String × Value))
    (ht : GoVal.hasType (.struct fs) (.struct vals) = true)
    (hf : (GoType.struct fs).inFamily = true) (hv : (GoVal.struct vals).inFamily = true)
    (hr : reflectV (.struct fs) (.struct vals) = some (.map m)) (hj : jsonV (.struct fs) (.struct vals) = some (.map j)) :
    m.map (·.1) = j.map (·.1) :=
  reflectV_struct_keys fs vals m j ht hf hv hr hj

end SMD.C18
