/-
C18 — "setting or deleting an entry through the generic map interface changes exactly that entry,
whatever the representation behind it", for REFLECTED Go data: `Map.Set(key, val)` / `Map.Delete(key)`
on a Go struct or Go map reached from the root `value.NewValueReflect(&x)` by any path of `Map.Get` /
`List.At` steps (`goSetAt`, `goDeleteAt` of SMD/Model/ReflectSet.lean; tied to the real code by the
`rfl.set` / `rfl.del` ops of the driver).

What is proved, about the library's own reading (`reflectV`) of the root before (`R`) and after:
* the path leads, in `R`, to a map `m` (the reading of the container);
* the reading of the new root is `R` with `m'` in the place of `m` (`Value.replaceAt`): everything outside
  the container is unchanged — except that a Go map emptied by `Delete` directly under an omitempty
  struct field disappears from its parent (`Value.eraseAt`), as in encoding/json;
* `m'` has, for every other key, the entry of `m` (present or absent, and its value);
* the entry of the key is the value set as the library reads the Go value stored for it (`SetEntry`):
  the value itself when it is not null, absent when the field is omitempty and the stored value empty;
  after `Delete` it is absent, or the zero value of a pointer field (null) or omitempty struct field.
Further: the new root is still well typed (`set_preserves_type`); which containers give `panic` and
`refused` (`set_panics_iff` …: not assignable / not settable; no such field, …); the one-level cases with
the omitempty flag and the stored Go value spelled out (`structOp_set_exact`, `mapOp_set_exact`, …,
`set_field_of_struct_in_go_map` for the replacement-copy path); examples on concrete data, all of which
were also run against the Go library through the driver.
-/
import SMD.Proofs.ReflectSetLocal
import SMD.Proofs.ReflectSetTyped
namespace SMD.C18
open SMD

/-! ### the entry of the key -/

/-- after `Set(key, val)` with a value that is not null the entry is the value itself, or absent (an
omitempty struct field) and then the value is an empty one: false, 0, "", [] or {} -/
theorem setEntry_of_value {val : Value} {e : Option Value} (h : SetEntry val e) (hv : val ≠ .null) :
    e = some val ∨ (e = none ∧ val.isEmptyGeneric = true) := by
  obtain ⟨o, T, nv, x', hst, hx', he⟩ := h
  obtain ⟨x, hx, hval, _, hemp⟩ := storeAs_spec T val nv hst
  rw [hx'] at hx
  cases hx
  rw [hval hv] at he
  simp only [entryOf] at he
  split at he
  · rename_i hom
    simp only [Bool.and_eq_true] at hom
    exact Or.inr ⟨he, hemp hom.2⟩
  · exact Or.inl he

/-- after `Set(key, null)` the entry is the zero value of the Go type of the field / element as the
library reads it (null for pointers, interfaces, maps, slices; false, 0, "" …), or absent when the
field is omitempty and that zero value empty -/
theorem setEntry_of_null {e : Option Value} (h : SetEntry .null e) :
    ∃ T, e = none ∨ e = reflectV T (zeroOf T) := by
  obtain ⟨o, T, nv, x', hst, hx', he⟩ := h
  obtain ⟨x, hx, _, hz, _⟩ := storeAs_spec T .null nv hst
  have := hz rfl
  subst this
  refine ⟨T, ?_⟩
  simp only [entryOf] at he
  split at he
  · exact Or.inl he
  · exact Or.inr (by rw [he, hx'])

/-- after `Delete(key)` the entry is absent, or reads null (a pointer field without omitempty), or is
the zero value of an omitempty field of struct type (which omitempty never omits) -/
theorem delEntry_cases {e : Option Value} (h : DelEntry e) :
    e = none ∨ e = some .null ∨ ∃ fs, e = reflectV (.struct fs) (zeroOf (.struct fs)) := by
  rcases h with h | ⟨o, T, x', hok, hx', he⟩
  · exact Or.inl h
  · simp only [entryOf] at he
    split at he
    · exact Or.inl he
    · rename_i hom
      cases hs : T.isStruct with
      | true =>
        cases T <;> simp [GoType.isStruct] at hs
        exact Or.inr (Or.inr ⟨_, by rw [he, hx']⟩)
      | false =>
        have hz := zeroOf_empty T hs
        simp only [hz, Bool.and_true] at hom
        have ho : o = false := by cases o <;> simp_all
        subst ho
        simp only [Bool.or_false] at hok
        rw [zeroOf_ptr_reads T hok] at hx'
        cases hx'
        exact Or.inr (Or.inl he)

/-! ### Set -/

/-- (a) `Set(key, val)` on the struct or Go map at `path`, when it succeeds, changes exactly that entry
of exactly that container, as the library reads the root before and after -/
theorem set_changes_exactly_that_entry (t : GoType) (root : GoVal) (path : List Step) (key : String)
    (val : Value) (root' : GoVal) (ht : GoVal.hasTypeB (2 ^ 64) t root = true)
    (hs : goSetAt t root path key val = .ok root') :
    ∃ R m m', reflectV t root = some R ∧ R.at path = some (.map m) ∧
      reflectV t root' = some (R.replaceAt path (.map m')) ∧
      (∀ k', k' ≠ key → lookupField k' m' = lookupField k' m) ∧
      SetEntry val (lookupField key m') ∧
      (val ≠ .null → lookupField key m' = some val ∨
        (lookupField key m' = none ∧ val.isEmptyGeneric = true)) := by
  obtain ⟨R, hR⟩ := Option.isSome_iff_exists.1 (reflectV_total (2 ^ 64) (Int.le_refl _) root t ht)
  obtain ⟨tgt, cv', _, hf, hrest⟩ := modifyAt_frame _ path t root true false root' hs
  obtain ⟨⟨c, hc1, hc2⟩, hrep⟩ := hrest R hR
  obtain ⟨m, m', rfl, hm', hspec, hemp⟩ := localOp_spec key (.set val) tgt cv' hf c hc1
  obtain ⟨hr', _⟩ := hrep (.map m') hm' (hemp (Or.inl ⟨val, rfl⟩))
  exact ⟨R, m, m', hR, hc2, hr', hspec.others, hspec.entry, setEntry_of_value hspec.entry⟩

/-! ### Delete -/

/-- (b) `Delete(key)` on the struct or Go map at `path`, when it succeeds, changes exactly that entry of
exactly that container; when a Go map becomes empty directly under an omitempty struct field its entry
may disappear from the parent (second alternative), never otherwise (last clause) -/
theorem delete_changes_exactly_that_entry (t : GoType) (root : GoVal) (path : List Step) (key : String)
    (root' : GoVal) (ht : GoVal.hasTypeB (2 ^ 64) t root = true)
    (hs : goDeleteAt t root path key = .ok root') :
    ∃ R R' m m', reflectV t root = some R ∧ R.at path = some (.map m) ∧
      reflectV t root' = some R' ∧
      (R' = R.replaceAt path (.map m') ∨ (path ≠ [] ∧ R' = R.eraseAt path)) ∧
      ((m' = [] → m = []) → R' = R.replaceAt path (.map m')) ∧
      (∀ k', k' ≠ key → lookupField k' m' = lookupField k' m) ∧
      DelEntry (lookupField key m') := by
  obtain ⟨R, hR⟩ := Option.isSome_iff_exists.1 (reflectV_total (2 ^ 64) (Int.le_refl _) root t ht)
  obtain ⟨tgt, cv', hres, hf, hrest⟩ := modifyAt_frame _ path t root true false root' hs
  obtain ⟨tgt2, cv2, hres2, hf2, hrest2⟩ := modifyAt_frame_any _ path t root true false root' hs
  rw [hres] at hres2
  cases hres2
  rw [hf] at hf2
  cases hf2
  obtain ⟨⟨c, hc1, hc2⟩, hrep⟩ := hrest R hR
  obtain ⟨m, m', rfl, hm', hspec, hemp⟩ := localOp_spec key .del tgt cv' hf c hc1
  obtain ⟨hany, _⟩ := hrest2 R hR (.map m') hm'
  have hR' : ∃ R', reflectV t root' = some R' := by
    rcases hany with h | ⟨_, h⟩ <;> exact ⟨_, h⟩
  obtain ⟨R', hR'⟩ := hR'
  refine ⟨R, R', m, m', hR, hc2, hR', ?_, ?_, hspec.others, hspec.entry⟩
  · rcases hany with h | ⟨hne, h⟩
    · left; rw [hR'] at h; exact Option.some.inj h
    · right; rw [hR'] at h; exact ⟨hne, Option.some.inj h⟩
  · intro hne
    obtain ⟨hr', _⟩ := hrep (.map m') hm' (hemp (Or.inr (Or.inr hne)))
    rw [hR'] at hr'
    exact Option.some.inj hr'

/-- for a struct container nothing ever disappears from the parent -/
theorem delete_in_struct_replaces (t : GoType) (root : GoVal) (path : List Step) (key : String)
    (root' : GoVal) (R : Value) (fs : List GoField) (vals : List GoVal) (settable : Bool)
    (hR : reflectV t root = some R) (hres : goResolve t root path = some (.struct fs vals settable))
    (hs : goDeleteAt t root path key = .ok root') :
    ∃ m', reflectV t root' = some (R.replaceAt path (.map m')) := by
  obtain ⟨tgt, cv', hres', hf, hrest⟩ := modifyAt_frame _ path t root true false root' hs
  have : tgt = .struct fs vals settable := by
    have h := hres'.symm.trans hres
    exact Option.some.inj h
  subst this
  obtain ⟨⟨c, hc1, hc2⟩, hrep⟩ := hrest R hR
  obtain ⟨m, m', rfl, hm', hspec, hemp⟩ := localOp_spec key .del _ cv' hf c hc1
  exact ⟨m', (hrep (.map m') hm' (hemp (Or.inr (Or.inl rfl)))).1⟩

/-! ### the Go data stays well typed -/

/-- after a successful `Set` the root is still a value of its Go type, with every uint below the same
bound `ub` (`2^64`: the range in which the library can read it) -/
theorem set_preserves_type (ub : Int) (hub : 0 < ub) (t : GoType) (root : GoVal) (path : List Step)
    (key : String) (val : Value) (root' : GoVal) (ht : GoVal.hasTypeB ub t root = true)
    (hs : goSetAt t root path key val = .ok root') :
    GoVal.hasTypeB ub t root' = true :=
  modifyAt_typed ub hub key (.set val) path t root true false root' hs ht

theorem delete_preserves_type (ub : Int) (hub : 0 < ub) (t : GoType) (root : GoVal) (path : List Step)
    (key : String) (root' : GoVal) (ht : GoVal.hasTypeB ub t root = true)
    (hs : goDeleteAt t root path key = .ok root') :
    GoVal.hasTypeB ub t root' = true :=
  modifyAt_typed ub hub key .del path t root true false root' hs ht

/-! ### what `replaceAt` leaves alone -/

theorem child_setChild_same (s : Step) (R x y : Value) (h : R.child s = some x) :
    (R.setChild s y).child s = some y := by
  cases s with
  | key k =>
    cases R <;> simp [Value.child] at h
    rename_i m
    simp only [Value.setChild, Value.child]
    rw [lookupField_eq_alook] at h ⊢
    exact alook_replaceFirst_same k y m (by rw [h]; rfl)
  | index i =>
    cases R with
    | list l =>
      simp only [Value.child] at h
      simp only [Value.setChild, Value.child]
      have hi : i < l.length := (List.getElem?_eq_some_iff.1 h).1
      exact List.getElem?_set_self hi
    | _ => simp [Value.child] at h

theorem child_setChild_other (s s' : Step) (R y : Value) (h : s' ≠ s) :
    (R.setChild s y).child s' = R.child s' := by
  cases s with
  | key k =>
    cases R <;> try rfl
    rename_i m
    cases s' with
    | key k' =>
      have hk : k' ≠ k := fun e => h (by rw [e])
      simp only [Value.setChild, Value.child, lookupField_eq_alook]
      exact alook_replaceFirst_other k k' y hk m
    | index i => rfl
  | index i =>
    cases R <;> try rfl
    rename_i l
    cases s' with
    | key k' => rfl
    | index i' =>
      have hi : i ≠ i' := fun e => h (by rw [e])
      simp only [Value.setChild, Value.child]
      exact List.getElem?_set_ne hi

/-- the new container is what the path leads to afterwards -/
theorem replaceAt_at_same : ∀ (path : List Step) (R w c : Value), R.at path = some c →
    (R.replaceAt path w).at path = some w
  | [], _, _, _, _ => rfl
  | s :: rest, R, w, c, h => by
    simp only [Value.at] at h
    cases hx : R.child s with
    | none => simp [hx] at h
    | some x =>
      simp only [hx] at h
      simp only [Value.replaceAt, hx, Value.at, child_setChild_same s R x _ hx]
      exact replaceAt_at_same rest x w c h

/-- a path that leaves the path to the container at some step leads to what it led to before -/
theorem replaceAt_at_diverging (s s' : Step) (hne : s' ≠ s) (r1 r2 : List Step) (w : Value) :
    ∀ (pre : List Step) (R : Value),
      (R.replaceAt (pre ++ s :: r1) w).at (pre ++ s' :: r2) = R.at (pre ++ s' :: r2)
  | [], R => by
    simp only [List.nil_append, Value.replaceAt]
    cases hx : R.child s with
    | none => rfl
    | some x => simp only [Value.at, child_setChild_other s s' R _ hne]
  | p :: pre, R => by
    simp only [List.cons_append, Value.replaceAt]
    cases hx : R.child p with
    | none => rfl
    | some x =>
      simp only [Value.at, child_setChild_same p R x _ hx, hx]
      exact replaceAt_at_diverging s s' hne r1 r2 w pre x

/-! ### one level, exactly: (a1) a struct reached addressably, (a2) a struct that is an element of a Go
map, (a3) a Go map -/

theorem structOp_set_exact (fs : List GoField) (vals : List GoVal) (settable : Bool) (key : String)
    (val : Value) (out : GoVal) (h : structOp fs vals settable key (.set val) = .ok out)
    (m : List (String × Value)) (hm : reflectV (.struct fs) (.struct vals) = some (.map m)) :
    ∃ o ft fv viaPtr nv x' m', getField fs vals key = .hit o ft fv viaPtr ∧ storeAs ft val = some nv ∧
      (settable || viaPtr) = true ∧ reflectV ft nv = some x' ∧ out = .struct (putField fs vals key nv) ∧
      reflectV (.struct fs) out = some (.map m') ∧
      (∀ k, k ≠ key → lookupField k m' = lookupField k m) ∧
      lookupField key m' = if (o && nv.isEmptyValue) = true then none else some x' := by
  simp only [structOp] at h
  split at h
  · cases h
  · cases h
  · rename_i o ft fv viaPtr hg
    split at h
    · cases h
    · rename_i nv hst
      split at h
      · rename_i hset
        simp only [SetOutcome.ok.injEq] at h
        subst h
        obtain ⟨x', hx', _⟩ := storeAs_spec ft val nv hst
        obtain ⟨_, m', hm', _, _, hk, hnew⟩ := struct_put fs vals key o ft fv viaPtr hg nv x' hx' m hm
        exact ⟨o, ft, fv, viaPtr, nv, x', m', hg, hst, hset, hx', rfl, hm', hk, hnew⟩
      · cases h

theorem structOp_del_exact (fs : List GoField) (vals : List GoVal) (settable : Bool) (key : String)
    (out : GoVal) (h : structOp fs vals settable key .del = .ok out)
    (m : List (String × Value)) (hm : reflectV (.struct fs) (.struct vals) = some (.map m)) :
    (getField fs vals key = .behindNil ∧ out = .struct vals ∧ lookupField key m = none) ∨
    ∃ o ft fv viaPtr x' m', getField fs vals key = .hit o ft fv viaPtr ∧ (ft.isPtr || o) = true ∧
      (settable || viaPtr) = true ∧ reflectV ft (zeroOf ft) = some x' ∧
      out = .struct (putField fs vals key (zeroOf ft)) ∧
      reflectV (.struct fs) out = some (.map m') ∧
      (∀ k, k ≠ key → lookupField k m' = lookupField k m) ∧
      lookupField key m' = if (o && (zeroOf ft).isEmptyValue) = true then none else some x' := by
  simp only [structOp] at h
  split at h
  · cases h
  · rename_i hg
    simp only [SetOutcome.ok.injEq] at h
    exact Or.inl ⟨hg, h.symm, struct_behindNil fs vals key hg m hm⟩
  · rename_i o ft fv viaPtr hg
    split at h
    · rename_i hok
      split at h
      · rename_i hset
        simp only [SetOutcome.ok.injEq] at h
        subst h
        obtain ⟨x', hx'⟩ := zeroOf_reads ft
        obtain ⟨_, m', hm', _, _, hk, hnew⟩ := struct_put fs vals key o ft fv viaPtr hg (zeroOf ft) x' hx' m hm
        exact Or.inr ⟨o, ft, fv, viaPtr, x', m', hg, hok, hset, hx', rfl, hm', hk, hnew⟩
      · cases h
    · cases h

theorem mapRoot_id (o : SetOutcome) : o.mapRoot (fun x => x) = o := by cases o <;> rfl

/-- (a1) at the root, a struct is addressable: `Set` is `structOp` with `settable` -/
theorem goSetAt_root_struct (fs : List GoField) (vals : List GoVal) (key : String) (val : Value) :
    goSetAt (.struct fs) (.struct vals) [] key val = structOp fs vals true key (.set val) := by
  simp only [goSetAt, modifyAt, derefOf, targetOf, localOp, Bool.or_false]
  have : rewrap (.struct fs) (.struct vals) = fun x => x := by funext x; simp [rewrap]
  rw [this, mapRoot_id]

theorem goDeleteAt_root_struct (fs : List GoField) (vals : List GoVal) (key : String) :
    goDeleteAt (.struct fs) (.struct vals) [] key = structOp fs vals true key .del := by
  simp only [goDeleteAt, modifyAt, derefOf, targetOf, localOp, Bool.or_false]
  have : rewrap (.struct fs) (.struct vals) = fun x => x := by funext x; simp [rewrap]
  rw [this, mapRoot_id]

/-- (a2) a struct that is directly an element of a Go map is not addressable, but the wrapper holds the
parent map: `Set` is `structOp` with `settable`, its result written into the map under the same key -/
theorem goSetAt_struct_in_map (fs : List GoField) (mm : List (String × GoVal)) (k : String)
    (vals : List GoVal) (hl : goLookup k mm = some (.struct vals)) (key : String) (val : Value) :
    goSetAt (.map (.struct fs)) (.map mm) [.key k] key val =
      (structOp fs vals true key (.set val)).mapRoot fun e => .map (replaceFirst k e mm) := by
  simp only [goSetAt, modifyAt, derefOf, stepChild, hl, targetOf, localOp, GoType.acceptsStruct,
    Bool.or_true]
  have h1 : rewrap (.struct fs) (.struct vals) = fun x => x := by funext x; simp [rewrap]
  have h2 : ∀ x, rewrap (.map (.struct fs)) (.map mm) x = x := by intro x; simp [rewrap]
  simp only [h1, mapRoot_id, h2]

theorem goDeleteAt_struct_in_map (fs : List GoField) (mm : List (String × GoVal)) (k : String)
    (vals : List GoVal) (hl : goLookup k mm = some (.struct vals)) (key : String) :
    goDeleteAt (.map (.struct fs)) (.map mm) [.key k] key =
      (structOp fs vals true key .del).mapRoot fun e => .map (replaceFirst k e mm) := by
  simp only [goDeleteAt, modifyAt, derefOf, stepChild, hl, targetOf, localOp, GoType.acceptsStruct,
    Bool.or_true]
  have h1 : rewrap (.struct fs) (.struct vals) = fun x => x := by funext x; simp [rewrap]
  have h2 : ∀ x, rewrap (.map (.struct fs)) (.map mm) x = x := by intro x; simp [rewrap]
  simp only [h1, mapRoot_id, h2]

/-- (a3) a Go map needs no address -/
theorem goSetAt_root_map (E : GoType) (mm : List (String × GoVal)) (key : String) (val : Value) :
    goSetAt (.map E) (.map mm) [] key val = mapOp E mm key (.set val) := by
  simp only [goSetAt, modifyAt, derefOf, targetOf, localOp]
  have : rewrap (.map E) (.map mm) = fun x => x := by funext x; simp [rewrap]
  rw [this, mapRoot_id]

theorem goDeleteAt_root_map (E : GoType) (mm : List (String × GoVal)) (key : String) :
    goDeleteAt (.map E) (.map mm) [] key = mapOp E mm key .del := by
  simp only [goDeleteAt, modifyAt, derefOf, targetOf, localOp]
  have : rewrap (.map E) (.map mm) = fun x => x := by funext x; simp [rewrap]
  rw [this, mapRoot_id]

/-- (a2), the replacement-copy path, in one statement: the element under `k` is the old element with
exactly the field `key` changed — every other field of the element keeps its entry —, and every other
element of the map is what it was.

The defect fixed in structreflect.go `update` (the replacement written into the parent map was a fresh
zero struct with only the one field set) makes this FALSE: for
`map[string]struct{X int64 "x"; Z string "z,omitempty"}{"k": {1, "z"}}`, `Set("x", 5)` at `["k"]`
gave `{"k": {"x": 5}}` — the entry `z` of the element was lost (see `old_defect_loses_fields` below). -/
theorem set_field_of_struct_in_go_map (fs : List GoField) (mm : List (String × GoVal)) (k : String)
    (vals : List GoVal) (hl : goLookup k mm = some (.struct vals)) (key : String) (val : Value)
    (root' : GoVal) (hs : goSetAt (.map (.struct fs)) (.map mm) [.key k] key val = .ok root')
    (M : List (String × Value)) (hM : reflectV (.map (.struct fs)) (.map mm) = some (.map M)) :
    ∃ m m' M', lookupField k M = some (.map m) ∧
      reflectV (.map (.struct fs)) root' = some (.map M') ∧
      lookupField k M' = some (.map m') ∧
      (∀ j, j ≠ k → lookupField j M' = lookupField j M) ∧
      (∀ f, f ≠ key → lookupField f m' = lookupField f m) ∧
      SetEntry val (lookupField key m') := by
  rw [goSetAt_struct_in_map fs mm k vals hl] at hs
  obtain ⟨e, he, hroot⟩ := mapRoot_ok hs
  subst hroot
  obtain ⟨x, hx1, hx2, hx3⟩ := stepChild_map k (.struct fs) mm (.struct vals) hl (.map M) hM
  obtain ⟨m, rfl⟩ := reflectV_struct_is_map hx1
  obtain ⟨vals', m', he', hm', hspec⟩ := structOp_spec fs vals true key (.set val) e he m hx1
  subst he'
  have hM' := hx3 _ _ hm'
  simp only [Value.setChild] at hM'
  simp only [Value.child] at hx2
  refine ⟨m, m', _, hx2, hM', ?_, ?_, hspec.others, hspec.entry⟩
  · rw [lookupField_eq_alook] at hx2 ⊢
    exact alook_replaceFirst_same k _ M (by rw [hx2]; rfl)
  · intro j hj
    rw [lookupField_eq_alook, lookupField_eq_alook]
    exact alook_replaceFirst_other k j _ hj M

theorem mapOp_set_exact (E : GoType) (mm : List (String × GoVal)) (key : String) (val : Value)
    (out : GoVal) (h : mapOp E mm key (.set val) = .ok out) (m : List (String × Value))
    (hm : reflectV (.map E) (.map mm) = some (.map m)) :
    ∃ nv x', storeAs E val = some nv ∧ reflectV E nv = some x' ∧ out = .map (insertSorted key nv mm) ∧
      reflectV (.map E) out = some (.map (insertSorted key x' m)) ∧
      (∀ k, k ≠ key → lookupField k (insertSorted key x' m) = lookupField k m) ∧
      lookupField key (insertSorted key x' m) = some x' := by
  simp only [reflectV] at hm
  cases hr : reflectEntries E mm with
  | none => simp [hr] at hm
  | some r =>
    simp only [hr, Option.map, Option.some.injEq, Value.map.injEq] at hm
    subst hm
    simp only [mapOp] at h
    split at h
    · cases h
    · rename_i nv hst
      simp only [SetOutcome.ok.injEq] at h
      subst h
      obtain ⟨x', hx', _⟩ := storeAs_spec E val nv hst
      have h2 := reflectEntries_insertSorted E key nv x' hx' mm r hr
      refine ⟨nv, x', hst, hx', rfl, by simp [reflectV, h2], ?_, ?_⟩
      · intro k hne
        rw [lookupField_eq_alook, lookupField_eq_alook, alook_insertSorted_other _ _ _ hne]
      · rw [lookupField_eq_alook, alook_insertSorted_same]

theorem mapOp_del_exact (E : GoType) (mm : List (String × GoVal)) (key : String)
    (m : List (String × Value)) (hm : reflectV (.map E) (.map mm) = some (.map m)) :
    mapOp E mm key .del = .ok (.map (eraseKey key mm)) ∧
      reflectV (.map E) (.map (eraseKey key mm)) = some (.map (eraseKey key m)) ∧
      (∀ k, k ≠ key → lookupField k (eraseKey key m) = lookupField k m) ∧
      lookupField key (eraseKey key m) = none := by
  simp only [reflectV] at hm
  cases hr : reflectEntries E mm with
  | none => simp [hr] at hm
  | some r =>
    simp only [hr, Option.map, Option.some.injEq, Value.map.injEq] at hm
    subst hm
    have h2 := reflectEntries_eraseKey E key mm r hr
    refine ⟨rfl, by simp [reflectV, h2], ?_, ?_⟩
    · intro k hne
      rw [lookupField_eq_alook, lookupField_eq_alook, alook_eraseKey_other _ _ hne]
    · rw [lookupField_eq_alook, alook_eraseKey_same]

/-! ### (c) which outcome: refusals and panics, by the container the path resolves to -/

/-- the outcome (without the new root) is that of the operation on the container the path resolves to;
a path that resolves to no struct or non-nil Go map is refused -/
theorem set_outcome_by_container (t : GoType) (root : GoVal) (path : List Step) (key : String) (val : Value) :
    (goSetAt t root path key val).shape =
      match goResolve t root path with
      | some tgt => (localOp key (.set val) tgt).shape
      | none => .refused :=
  modifyAt_shape _ path t root true false

theorem delete_outcome_by_container (t : GoType) (root : GoVal) (path : List Step) (key : String) :
    (goDeleteAt t root path key).shape =
      match goResolve t root path with
      | some tgt => (localOp key .del tgt).shape
      | none => .refused :=
  modifyAt_shape _ path t root true false

theorem shape_eq_panic (o : SetOutcome) : o.shape = .panic ↔ o = .panic := by
  cases o <;> simp [SetOutcome.shape]

theorem shape_eq_refused (o : SetOutcome) : o.shape = .refused ↔ o = .refused := by
  cases o <;> simp [SetOutcome.shape]

/-- `Set` panics on a container: the value is not assignable to the Go type of the field / element, or
the struct is not settable (neither addressable, nor a direct element of a Go map that can take a struct,
nor is the field reached through an inlined pointer) -/
def SetPanics (key : String) (val : Value) : Target → Prop
  | .struct fs vals settable => ∃ o ft fv viaPtr, getField fs vals key = .hit o ft fv viaPtr ∧
      (storeAs ft val = none ∨ (settable || viaPtr) = false)
  | .goMap E _ => storeAs E val = none

/-- `Set` is refused on a container: no such field, or the field is in an inlined struct behind a nil
pointer -/
def SetRefused (key : String) : Target → Prop
  | .struct fs vals _ => getField fs vals key = .noField ∨ getField fs vals key = .behindNil
  | .goMap _ _ => False

/-- `Delete` panics on a container: a deletable field of a struct that is not settable -/
def DeletePanics (key : String) : Target → Prop
  | .struct fs vals settable => ∃ o ft fv viaPtr, getField fs vals key = .hit o ft fv viaPtr ∧
      (ft.isPtr || o) = true ∧ (settable || viaPtr) = false
  | .goMap _ _ => False

/-- `Delete` is refused on a container: no such field, or a field that is neither a pointer nor omitempty -/
def DeleteRefused (key : String) : Target → Prop
  | .struct fs vals _ => getField fs vals key = .noField ∨
      ∃ o ft fv viaPtr, getField fs vals key = .hit o ft fv viaPtr ∧ (ft.isPtr || o) = false
  | .goMap _ _ => False

theorem localOp_set_panic_iff (key : String) (val : Value) (tgt : Target) :
    localOp key (.set val) tgt = .panic ↔ SetPanics key val tgt := by
  cases tgt with
  | struct fs vals settable =>
    simp only [localOp, structOp, SetPanics]
    cases hg : getField fs vals key with
    | noField => exact ⟨fun h => (by cases h), fun ⟨_, _, _, _, h, _⟩ => (by cases h)⟩
    | behindNil => exact ⟨fun h => (by cases h), fun ⟨_, _, _, _, h, _⟩ => (by cases h)⟩
    | hit o ft fv viaPtr =>
      dsimp only
      constructor
      · intro h
        refine ⟨o, ft, fv, viaPtr, rfl, ?_⟩
        cases hst : storeAs ft val with
        | none => exact Or.inl rfl
        | some nv =>
          right
          simp only [hst] at h
          split at h
          · cases h
          · rename_i hset; simpa using hset
      · rintro ⟨o', ft', fv', vp', heq, hP⟩
        cases heq
        rcases hP with hP | hP
        · simp only [hP]
        · cases hst : storeAs ft val with
          | none => rfl
          | some nv => simp only [hP]; rfl
  | goMap E m =>
    simp only [localOp, mapOp, SetPanics]
    cases storeAs E val with
    | none => exact ⟨fun _ => rfl, fun _ => rfl⟩
    | some nv => exact ⟨fun h => (by cases h), fun h => (by cases h)⟩

theorem localOp_set_refused_iff (key : String) (val : Value) (tgt : Target) :
    localOp key (.set val) tgt = .refused ↔ SetRefused key tgt := by
  cases tgt with
  | struct fs vals settable =>
    simp only [localOp, structOp, SetRefused]
    cases hg : getField fs vals key with
    | noField => exact ⟨fun _ => Or.inl rfl, fun _ => rfl⟩
    | behindNil => exact ⟨fun _ => Or.inr rfl, fun _ => rfl⟩
    | hit o ft fv viaPtr =>
      dsimp only
      constructor
      · intro h
        exfalso
        cases hst : storeAs ft val with
        | none => simp only [hst] at h; cases h
        | some nv =>
          simp only [hst] at h
          split at h <;> cases h
      · rintro (h | h) <;> cases h
  | goMap E m =>
    simp only [localOp, mapOp, SetRefused]
    cases storeAs E val with
    | none => exact ⟨fun h => (by cases h), fun h => h.elim⟩
    | some nv => exact ⟨fun h => (by cases h), fun h => h.elim⟩

theorem localOp_del_panic_iff (key : String) (tgt : Target) :
    localOp key .del tgt = .panic ↔ DeletePanics key tgt := by
  cases tgt with
  | struct fs vals settable =>
    simp only [localOp, structOp, DeletePanics]
    cases hg : getField fs vals key with
    | noField => exact ⟨fun h => (by cases h), fun ⟨_, _, _, _, h, _⟩ => (by cases h)⟩
    | behindNil => exact ⟨fun h => (by cases h), fun ⟨_, _, _, _, h, _⟩ => (by cases h)⟩
    | hit o ft fv viaPtr =>
      dsimp only
      constructor
      · intro h
        refine ⟨o, ft, fv, viaPtr, rfl, ?_⟩
        split at h
        · rename_i hok
          split at h
          · cases h
          · rename_i hset; exact ⟨hok, by simpa using hset⟩
        · cases h
      · rintro ⟨o', ft', fv', vp', heq, hok, hset⟩
        cases heq
        simp only [hok, hset, if_true]; rfl
  | goMap E m => exact ⟨fun h => (by cases h), fun h => h.elim⟩

theorem localOp_del_refused_iff (key : String) (tgt : Target) :
    localOp key .del tgt = .refused ↔ DeleteRefused key tgt := by
  cases tgt with
  | struct fs vals settable =>
    simp only [localOp, structOp, DeleteRefused]
    cases hg : getField fs vals key with
    | noField => exact ⟨fun _ => Or.inl rfl, fun _ => rfl⟩
    | behindNil =>
      exact ⟨fun h => (by cases h), fun h => (by
        rcases h with h | ⟨_, _, _, _, h, _⟩ <;> cases h)⟩
    | hit o ft fv viaPtr =>
      dsimp only
      constructor
      · intro h
        right
        refine ⟨o, ft, fv, viaPtr, rfl, ?_⟩
        split at h
        · split at h <;> cases h
        · rename_i hok; simpa using hok
      · rintro (h | ⟨o', ft', fv', vp', heq, hok⟩)
        · cases h
        · cases heq
          simp only [hok]; rfl
  | goMap E m => exact ⟨fun h => (by cases h), fun h => h.elim⟩

/-- (c) `Set` panics iff the value is not assignable or the struct is not settable -/
theorem set_panics_iff (t : GoType) (root : GoVal) (path : List Step) (key : String) (val : Value) :
    goSetAt t root path key val = .panic ↔ ∃ tgt, goResolve t root path = some tgt ∧ SetPanics key val tgt := by
  rw [← shape_eq_panic, set_outcome_by_container]
  cases goResolve t root path with
  | none => simp
  | some tgt => simp [shape_eq_panic, localOp_set_panic_iff]

/-- `Set` is refused iff the path leads to no struct or non-nil Go map, or to a struct without that
field, or the field is behind a nil inlined pointer -/
theorem set_refused_iff (t : GoType) (root : GoVal) (path : List Step) (key : String) (val : Value) :
    goSetAt t root path key val = .refused ↔
      goResolve t root path = none ∨ ∃ tgt, goResolve t root path = some tgt ∧ SetRefused key tgt := by
  rw [← shape_eq_refused, set_outcome_by_container]
  cases goResolve t root path with
  | none => simp
  | some tgt => simp [shape_eq_refused, localOp_set_refused_iff]

theorem delete_panics_iff (t : GoType) (root : GoVal) (path : List Step) (key : String) :
    goDeleteAt t root path key = .panic ↔ ∃ tgt, goResolve t root path = some tgt ∧ DeletePanics key tgt := by
  rw [← shape_eq_panic, delete_outcome_by_container]
  cases goResolve t root path with
  | none => simp
  | some tgt => simp [shape_eq_panic, localOp_del_panic_iff]

theorem delete_refused_iff (t : GoType) (root : GoVal) (path : List Step) (key : String) :
    goDeleteAt t root path key = .refused ↔
      goResolve t root path = none ∨ ∃ tgt, goResolve t root path = some tgt ∧ DeleteRefused key tgt := by
  rw [← shape_eq_refused, delete_outcome_by_container]
  cases goResolve t root path with
  | none => simp
  | some tgt => simp [shape_eq_refused, localOp_del_refused_iff]

/-! ### (d) non-vacuity, and the statements that are false -/

namespace SetEx
/-- `struct{X int64 "x"; Z string "z,omitempty"}` -/
def inT : GoType :=
  .struct [.mk "X" (some "x") false false false false .int, .mk "Z" (some "z") false true false false .string]
/-- `map[string]struct{…}{"k": {1, "z"}, "o": {2, ""}}` -/
def mapT : GoType := .map inT
def mapV : GoVal := .map [("k", .struct [.int 1, .str "z"]), ("o", .struct [.int 2, .str ""])]
/-- `struct{A In "a"; P *In "p"; M map[string]int64 "m,omitempty"; N interface{} "n"; S In "s,omitempty";
L []In "l"; E map[string]Out2 "e"}` with `Out2 = struct{A In "a"; P *In "p"}` -/
def out2T : GoType :=
  .struct [.mk "A" (some "a") false false false false inT, .mk "P" (some "p") false false false false (.ptr inT)]
def outT : GoType :=
  .struct [.mk "A" (some "a") false false false false inT,
           .mk "P" (some "p") false false false false (.ptr inT),
           .mk "M" (some "m") false true false false (.map .int),
           .mk "N" (some "n") false false false false .iface,
           .mk "S" (some "s") false true false false inT,
           .mk "L" (some "l") false false false false (.slice inT),
           .mk "E" (some "e") false false false false (.map out2T)]
def outV : GoVal :=
  .struct [.struct [.int 1, .str "z"],
           .ptr (.struct [.int 2, .str ""]),
           .map [("a", .int 1)],
           .iface inT (.struct [.int 3, .str "n"]),
           .struct [.int 4, .str ""],
           .slice [.struct [.int 5, .str "l"]],
           .map [("k", .struct [.struct [.int 6, .str ""], .ptr (.struct [.int 7, .str ""])])]]
/-- `struct{*In ",inline"; Q int64 "q"}` with a nil embedded pointer -/
def embT : GoType :=
  .struct [.mk "In" none false false true true (.ptr inT), .mk "Q" (some "q") false false false false .int]
def embNil : GoVal := .struct [.nil, .int 2]

def readOk (t : GoType) : SetOutcome → Option Value
  | .ok r => reflectV t r
  | _ => none

def isPanic : SetOutcome → Bool
  | .panic => true
  | _ => false

def isRefused : SetOutcome → Bool
  | .refused => true
  | _ => false
end SetEx

open SetEx in
/-- (a), (a2) on concrete data: `Set("x", 5)` on the element `k` of a Go map of structs gives
`{"k": {"x": 5, "z": "z"}, "o": {"x": 2}}`; the hypotheses of the theorem hold, so its conclusion does -/
example :
    readOk mapT (goSetAt mapT mapV [.key "k"] "x" (.int 5)) =
      some (.map [("k", .map [("x", .int 5), ("z", .str "z")]), ("o", .map [("x", .int 2)])]) ∧
    GoVal.hasTypeB (2 ^ 64) mapT mapV = true ∧
    ∃ root', goSetAt mapT mapV [.key "k"] "x" (.int 5) = .ok root' ∧
      ∃ R m m', reflectV mapT mapV = some R ∧ R.at [.key "k"] = some (.map m) ∧
        reflectV mapT root' = some (R.replaceAt [.key "k"] (.map m')) ∧
        (∀ k', k' ≠ "x" → lookupField k' m' = lookupField k' m) ∧
        SetEntry (.int 5) (lookupField "x" m') ∧
        ((Value.int 5) ≠ .null → lookupField "x" m' = some (.int 5) ∨
          (lookupField "x" m' = none ∧ (Value.int 5).isEmptyGeneric = true)) :=
  ⟨rfl, rfl, _, rfl, set_changes_exactly_that_entry mapT mapV [.key "k"] "x" (.int 5) _ rfl rfl⟩

open SetEx in
/-- the defect fixed in structreflect.go `update`: the replacement written into the parent map was a fresh
zero struct with only the one field set.  Modelled here on the same data: the entry `z` of the element is
lost, so the "every other entry as before" clause of `set_field_of_struct_in_go_map` fails for it -/
theorem old_defect_loses_fields :
    let fs := [GoField.mk "X" (some "x") false false false false .int,
               GoField.mk "Z" (some "z") false true false false .string]
    let fixed := putField fs [.int 1, .str "z"] "x" (.int 5)
    let defect := putField fs (zeroFields fs) "x" (.int 5)
    reflectV inT (.struct fixed) = some (.map [("x", .int 5), ("z", .str "z")]) ∧
    reflectV inT (.struct defect) = some (.map [("x", .int 5)]) ∧
    lookupField "z" [("x", Value.int 5)] ≠ lookupField "z" [("x", Value.int 1), ("z", .str "z")] := by
  refine ⟨rfl, rfl, ?_⟩
  intro h
  have h1 : lookupField "z" [("x", Value.int 5)] = none := rfl
  have h2 : lookupField "z" [("x", Value.int 1), ("z", Value.str "z")] = some (.str "z") := rfl
  rw [h1, h2] at h
  cases h

open SetEx in
/-- (a1) a field of a struct behind a pointer field of the root; (a3) a new key in a Go map held in a
struct; a slice element; a struct reached through a pointer inside a map element -/
example :
    (readOk outT (goSetAt outT outV [.key "p"] "z" (.str "new"))).bind (·.at [.key "p"]) =
      some (.map [("x", .int 2), ("z", .str "new")]) ∧
    (readOk outT (goSetAt outT outV [.key "m"] "b" (.int 2))).bind (·.at [.key "m"]) =
      some (.map [("a", .int 1), ("b", .int 2)]) ∧
    (readOk outT (goSetAt outT outV [.key "l", .index 0] "x" (.int 9))).bind (·.at [.key "l"]) =
      some (.list [.map [("x", .int 9), ("z", .str "l")]]) ∧
    (readOk outT (goSetAt outT outV [.key "e", .key "k", .key "p"] "x" (.int 9))).bind (·.at [.key "e", .key "k"]) =
      some (.map [("a", .map [("x", .int 6)]), ("p", .map [("x", .int 9)])]) :=
  ⟨rfl, rfl, rfl, rfl⟩

open SetEx in
/-- (b) on concrete data: `Delete("z")` of an omitempty field makes it absent; `Delete("p")` of a pointer
field makes it read null; the theorem applies -/
example :
    (readOk outT (goDeleteAt outT outV [.key "a"] "z")).bind (·.at [.key "a"]) = some (.map [("x", .int 1)]) ∧
    (readOk outT (goDeleteAt outT outV [] "p")).bind (·.at [.key "p"]) = some .null ∧
    GoVal.hasTypeB (2 ^ 64) outT outV = true ∧
    ∃ root', goDeleteAt outT outV [.key "a"] "z" = .ok root' ∧
      ∃ R R' m m', reflectV outT outV = some R ∧ R.at [.key "a"] = some (.map m) ∧
        reflectV outT root' = some R' ∧
        (R' = R.replaceAt [.key "a"] (.map m') ∨ (([.key "a"] : List Step) ≠ [] ∧ R' = R.eraseAt [.key "a"])) ∧
        ((m' = [] → m = []) → R' = R.replaceAt [.key "a"] (.map m')) ∧
        (∀ k', k' ≠ "z" → lookupField k' m' = lookupField k' m) ∧
        DelEntry (lookupField "z" m') :=
  ⟨rfl, rfl, rfl, _, rfl, delete_changes_exactly_that_entry outT outV [.key "a"] "z" _ rfl rfl⟩

-- STATEMENT-FALSE: "after `Delete` the key is absent, or reads null for a pointer field without
-- omitempty" — false for an omitempty field of STRUCT type: `struct{… S In "s,omitempty" …}`,
-- `Delete("s")` succeeds (the field is omitempty), stores the zero struct, and a struct is never empty:
-- the key stays, reading `{"x": 0}` (Go: `{"s":{"x":0}}`, as encoding/json would write it).
-- Closest true statement: `delEntry_cases` (a third alternative: the zero value of a struct type).
open SetEx in
example :
    (readOk outT (goDeleteAt outT outV [] "s")).bind (·.at [.key "s"]) = some (.map [("x", .int 0)]) ∧
    ¬ ((some (Value.map [("x", .int 0)]) = none) ∨ (some (Value.map [("x", .int 0)]) = some .null)) := by
  refine ⟨rfl, ?_⟩
  rintro (h | h) <;> cases h

-- STATEMENT-FALSE: "after `Delete` the reading of the root is the old reading with the new container in
-- its place" (`R' = R.replaceAt path (.map m')`, as for `Set`) — false when a Go map becomes empty
-- directly under an omitempty struct field: `struct{… M map[string]int64 "m,omitempty" …}` with
-- `M = {"a": 1}`, `Delete("a")` at `["m"]`: the root no longer has the entry `m` at all, it does not
-- read `"m": {}` (Go and encoding/json agree).  Closest true statements:
-- `delete_changes_exactly_that_entry` (either that, or the entry of the container is gone from its
-- parent; always the former unless the container became empty) and `delete_in_struct_replaces`.
open SetEx in
example :
    ∃ R R', reflectV outT outV = some R ∧ readOk outT (goDeleteAt outT outV [.key "m"] "a") = some R' ∧
      R.at [.key "m"] = some (.map [("a", .int 1)]) ∧
      R'.at [.key "m"] = none ∧ (R.replaceAt [.key "m"] (.map [])).at [.key "m"] = some (.map []) ∧
      R' ≠ R.replaceAt [.key "m"] (.map []) ∧ R' = R.eraseAt [.key "m"] := by
  refine ⟨_, _, rfl, rfl, rfl, rfl, rfl, ?_, rfl⟩
  intro h
  have := congrArg (fun v => (Value.at v [.key "m"]).isSome) h
  exact absurd this (by decide)

open SetEx in
/-- (c) on concrete data: a struct held by value in an interface, or nested by value in a map element,
is not settable: panic; a value of the wrong Go type: panic; unknown field, `Delete` of a plain field,
`Set` through a nil inlined pointer: refused (and `Delete` there succeeds, changing nothing) -/
example :
    isPanic (goSetAt outT outV [.key "n"] "x" (.int 5)) = true ∧
    isPanic (goSetAt outT outV [.key "e", .key "k", .key "a"] "x" (.int 5)) = true ∧
    isPanic (goSetAt outT outV [] "a" (.int 5)) = true ∧
    isPanic (goSetAt outT outV [.key "m"] "b" (.str "s")) = true ∧
    isRefused (goSetAt outT outV [] "nokey" (.int 5)) = true ∧
    isRefused (goDeleteAt outT outV [.key "a"] "x") = true ∧
    isRefused (goSetAt embT embNil [] "x" (.int 5)) = true ∧
    readOk embT (goDeleteAt embT embNil [] "x") = some (.map [("q", .int 2)]) ∧
    isRefused (goSetAt outT outV [.key "a", .key "x"] "y" (.int 5)) = true :=
  ⟨rfl, rfl, rfl, rfl, rfl, rfl, rfl, rfl, rfl⟩

open SetEx in
/-- the characterisation applies: the interface-held struct resolves to a container that is not
settable, and the field exists and takes an int64 -/
example : goSetAt outT outV [.key "n"] "x" (.int 5) = .panic ∧
    ∃ tgt, goResolve outT outV [.key "n"] = some tgt ∧ SetPanics "x" (.int 5) tgt :=
  ⟨rfl, (set_panics_iff outT outV [.key "n"] "x" (.int 5)).1 rfl⟩

end SMD.C18
