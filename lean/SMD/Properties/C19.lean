/-
C19 — ignored fields never take part in ownership (filter algebra and the per-step ownership clauses).

`Filter.apply` is the model of `fieldpath.Filter.Filter` (`SMD/Model/Filter.lean`): an exclusion set
is the recursive difference, an include matcher keeps the paths compatible with one of its patterns.
The history-level clauses (no conflicts / no ownership loss from ignored-only changes, values of
ignored fields flow) are evaluated on the implementation by the C19 judges of the `upd` domain
(see known finding D8 for the last one).
-/
import SMD.Proofs.UpdaterShape
import SMD.Proofs.FilterAlgebra
import SMD.Proofs.OwnershipShape
import SMD.Proofs.OwnershipCounterexamples
import SMD.Properties.C15
import SMD.Properties.C05
namespace SMD.C19
open SetTrie

/-- a path is ignored by an exclusion set when it or one of its prefixes is a member -/
def ignoredBy (ex : SetTrie) (q : Path) : Bool := (C15.prefixes q).any (fun r => ex.has r)

/-- `ignoredBy` in terms of the copy of `C15.prefixes` used in `SMD.Proofs` -/
private theorem ignoredBy_eq (ex : SetTrie) (q : Path) :
    ignoredBy ex q = (prefixesOf q).any (fun r => ex.has r) := by
  have : ∀ q : Path, C15.prefixes q = prefixesOf q := by
    intro q
    induction q with
    | nil => rfl
    | cons pe rest ih => simp [C15.prefixes, prefixesOf, ih]
  rw [ignoredBy, this]

/-- giving the ignore configuration as an exclusion set or as the equivalent filter is the same function -/
theorem exclude_filter_is_recursive_difference (ex s : SetTrie) :
    Filter.apply (.exclude ex) s = s.rdiff ex := rfl

/-- the exclusion filter removes exactly the ignored paths -/
theorem exclude_filter_spec (ex s : SetTrie) (q : Path) (hs : s.wf = true) (hex : ex.wf = true) :
    (Filter.apply (.exclude ex) s).has q = (s.has q && !ignoredBy ex q) :=
  C15.has_rdiff s ex q hs hex

theorem exclude_filter_wf (ex s : SetTrie) (hs : s.wf = true) (hex : ex.wf = true) :
    (Filter.apply (.exclude ex) s).wf = true :=
  C15.wf_rdiff s ex hs hex

/-- compatibility of a path with a (merged) matcher: at every position the first pattern member that
matches the element decides (wildcards sort first and therefore shadow specific members); a pattern
shorter than the path matches everything beneath it -/
def compatible : SetMatcher → Path → Bool
  | _, [] => true
  | .mk true _, _ :: _ => true
  | .mk false ms, [pe] => ms.any (fun pm => pm.1.wildcard || PE.equals pm.1.pe pe)
  | .mk false ms, pe :: q :: rest =>
    match ms.find? (fun pm => pm.1.wildcard || PE.equals pm.1.pe pe) with
    | some pm => compatible pm.2 (q :: rest)
    | none => false

/-- `compatible` coincides with its copy used in `SMD.Proofs.FilterAlgebra` -/
private theorem compatible_eq (pat : SetMatcher) (q : Path) : compatible pat q = isCompatible pat q := by
  fun_induction compatible pat q <;> simp [isCompatible, *]

/-- an include-pattern filter keeps exactly the paths compatible with its matcher -/
theorem include_filter_spec (pat : SetMatcher) (s : SetTrie) (q : Path) (hs : s.wf = true) (hq : q ≠ []) :
    (Filter.apply (.include pat) s).has q = (s.has q && compatible pat q) := by
  rw [compatible_eq]; exact has_filterInclude s pat q hs hq

theorem include_filter_wf (pat : SetMatcher) (s : SetTrie) (hs : s.wf = true) :
    (Filter.apply (.include pat) s).wf = true :=
  wf_filterInclude s pat hs

/- after a successful apply under an exclusion set the acting manager's record contains no ignored
path nor anything beneath one

theorem apply_actor_never_owns_ignored (u : Updater) (sc : Schema) (live cfg : TV) (ver : String) (m : Managed)
    (mgr : String) (force : Bool) (obj : Option TV) (mf : Managed) (ex : SetTrie) (vs : VersionedSet)
    (hig : u.ignore ver = some (.exclude ex)) (hex : ex.wf = true) :
    apply u sc live cfg ver m mgr force = .ok (obj, mf) → mfGet mf mgr = some vs →
      ∀ q, vs.set.has q = true → ignoredBy ex q = false
-/
-- STATEMENT-FALSE: ex = {.f}, m = [("a", ⟨∅,"v",false⟩), ("a", ⟨{.f},"v",true⟩)], manager "a" applies the
-- empty configuration: its new empty record is dropped and the stale second entry, which owns the ignored
-- path .f, becomes its record (same cause as C05 `apply_owner_exact`; see there for why distinct keys
-- are not enough and key order is needed).
example : ¬ ∀ (u : Updater) (sc : Schema) (live cfg : TV) (ver : String) (m : Managed)
    (mgr : String) (force : Bool) (obj : Option TV) (mf : Managed) (ex : SetTrie) (vs : VersionedSet)
    (_ : u.ignore ver = some (.exclude ex)) (_ : ex.wf = true),
    apply u sc live cfg ver m mgr force = .ok (obj, mf) → mfGet mf mgr = some vs →
      ∀ q, vs.set.has q = true → ignoredBy ex q = false := by
  simp only [ignoredBy_eq]; exact Counter.apply_actor_never_owns_ignored_false

/-- after a successful apply under an exclusion set on managed fields in key order the acting manager's
record contains no ignored path nor anything beneath one -/
theorem apply_actor_never_owns_ignored_of_sorted (u : Updater) (sc : Schema) (live cfg : TV) (ver : String)
    (m : Managed) (mgr : String) (force : Bool) (obj : Option TV) (mf : Managed) (ex : SetTrie)
    (vs : VersionedSet)
    (hig : u.ignore ver = some (.exclude ex)) (hex : ex.wf = true)
    (hs : m.Pairwise (fun a b => a.1 < b.1)) :
    apply u sc live cfg ver m mgr force = .ok (obj, mf) → mfGet mf mgr = some vs →
      ∀ q, vs.set.has q = true → ignoredBy ex q = false := by
  simp only [ignoredBy_eq]; exact apply_actor_not_ignored_of_sorted hig hex hs

/-- …and on any list when the applied configuration owns something that is not ignored -/
theorem apply_actor_never_owns_ignored_partial (u : Updater) (sc : Schema) (live cfg : TV) (ver : String)
    (m : Managed) (mgr : String) (force : Bool) (obj : Option TV) (mf : Managed) (ex : SetTrie)
    (vs : VersionedSet)
    (hig : u.ignore ver = some (.exclude ex)) (hex : ex.wf = true)
    (hne : ∀ fs, toFieldSet sc cfg = .ok fs → (fs.rdiff ex).isEmpty = false) :
    apply u sc live cfg ver m mgr force = .ok (obj, mf) → mfGet mf mgr = some vs →
      ∀ q, vs.set.has q = true → ignoredBy ex q = false := by
  simp only [ignoredBy_eq]; exact apply_actor_not_ignored_nonempty hig hex hne

/-- …and the same after an update -/
theorem update_actor_never_owns_ignored (u : Updater) (sc : Schema) (live newObj : TV) (ver : String) (m m0 : Managed)
    (mgr : String) (mf : Managed) (ex : SetTrie) (vs : VersionedSet)
    (hig : u.ignore ver = some (.exclude ex)) (hex : ex.wf = true)
    (hrec : reconcileManaged u sc live m = .ok m0) (hwf : C05.WFManaged m0) :
    update u sc live newObj ver m mgr = .ok mf → mfGet mf mgr = some vs →
      ∀ q, vs.set.has q = true → ignoredBy ex q = false := by
  simp only [ignoredBy_eq]; exact update_actor_not_ignored hig hex hrec hwf

end SMD.C19
