/-
C19 / C06 over all histories — invariants of every reachable (live object, managed fields) state
(`SMD/Spec/History.lean`: any finite sequence of successful apply / forced apply / update steps by any
number of managers at any versions), for every converter and every schema:

* the managed fields keep the representation invariant of a Go map (keys strictly ascending), every
  record is a well-formed set, and no manager with an empty record remains (C05 / C06);
* under an exclusion set, no manager's record ever contains an ignored field or anything beneath it
  (C19, first sentence).
-/
import SMD.Proofs.HistoryInvariants
namespace SMD.C19
open History

/-- the ignore configuration is the exclusion set `ex` at every version -/
def ExcludesEverywhere (u : Updater) (ex : SetTrie) : Prop := ∀ v, u.ignore v = some (.exclude ex)

/-- an ignore filter whose exclusion set (if it is one) is a well-formed set -/
def FilterOK : Filter → Prop
  | .exclude ex => ex.wf = true
  | .include _ => True

/-- structural invariant of every reachable state, for any updater (any converter, any ignore
configuration made of well-formed exclusion sets or include patterns) -/
theorem reachable_managed_wellformed (u : Updater) (sc : Schema) (tr : TypeRef) (st : State)
    (h : Reachable u sc tr st) (hig : ∀ v f, u.ignore v = some f → FilterOK f) :
    st.managed.Pairwise (fun a b => a.1 < b.1) ∧
    (∀ x, x ∈ st.managed → x.2.set.wf = true) ∧
    (∀ x, x ∈ st.managed → x.2.set.isEmpty = false) :=
  reachable_managedInv (fun v _ e => hig v _ e) h

/-- with an exclusion set in force, no record of any reachable state contains an ignored path or
anything beneath one -/
theorem reachable_never_owns_ignored (u : Updater) (sc : Schema) (tr : TypeRef) (ex : SetTrie) (st : State)
    (hex : ex.wf = true) (hig : ExcludesEverywhere u ex) (h : Reachable u sc tr st) :
    ∀ x, x ∈ st.managed → ∀ q, x.2.set.has q = true → ignoredBy ex q = false :=
  reachable_noIgnored hig hex h

/-- non-vacuity: the empty state is reachable, and a first apply is a step -/
example (u : Updater) (sc : Schema) (tr : TypeRef) : Reachable u sc tr ⟨.null, []⟩ := Reachable.init

end SMD.C19
