/-
C19 along every history under an INCLUDE filter: with the same include pattern in force at every
version, no record of any reachable state contains a path the pattern does not keep.
-/
import SMD.Proofs.HistoryInclude
namespace SMD.C19
open SMD.History

/-- the include pattern `pat` is the ignore configuration of every version -/
def IncludesEverywhere (u : Updater) (pat : SetMatcher) : Prop := ∀ v, u.ignore v = some (.include pat)

/-- every owned path of every reachable state is compatible with the include pattern -/
theorem reachable_owns_only_included (u : Updater) (sc : Schema) (tr : TypeRef) (pat : SetMatcher) (st : State)
    (hig : IncludesEverywhere u pat) (h : Reachable u sc tr st) :
    ∀ x, x ∈ st.managed → ∀ q, x.2.set.has q = true → compatible pat q = true :=
  reachable_onlyIncluded hig h

end SMD.C19
