/-
C19 — from the LIST of include patterns to the merged matcher: correctness of `SetMatcher.Merge`.

`C19.include_filter_spec` describes the include filter relative to the already merged matcher
(`compatible`: at every node the first matching member decides). This file proves the missing step:
the matcher `SetMatcher.mergeAll` builds from a list of prefix patterns (or, more generally, from a list
of well-formed matcher trees) is compatible with exactly the paths the reference semantics on the LIST
accepts — a semantics that never merges anything (`patsCompatible`, `treesCompatible`; they mirror the
reference judge of the Go harness). `Merge` is where a defect of the Go library lived: a reversed
comparison in the member lookup made merged matchers keep duplicate members, of which the filter then
only consulted the first.

Proofs: `SMD/Proofs/MatcherMerge.lean`.
-/
import SMD.Properties.C19
import SMD.Proofs.MatcherMerge
namespace SMD.C19
open SetTrie

/-! ### reference semantics on lists -/

/-- a path is compatible with a list of prefix patterns (`PrefixMatcher(parts…)` each): the path has
to match ONE pattern only as far as both go, element by element, except that at every position the
patterns still in play that have a wildcard there shadow those that have a specific element there
(the documented behaviour of `FilterIncludeMatches`: wildcard members are consulted first and the
first matching member decides).

* the empty path is compatible with everything;
* a pattern that is consumed (`[]`) matches everything beneath: the path is compatible;
* otherwise, with `pe` the head of the path, `wild` are the tails of the patterns whose head is a wildcard
  and `spec` the tails of those whose head is specific and `Equals` `pe`: the rest of the path has to be
  compatible with `wild` if there is any, else with `spec` if there is any, else the path is dropped.

Choices: the EMPTY LIST of patterns accepts everything, mirroring `mergeAll [] = MatchAnySet()` (the
recursion never reaches it from a non-empty list: it only descends into non-empty `wild` / `spec`).
No special case is needed for one-element paths (`compatible` asks there only whether SOME member matches,
without descending): descending into a non-empty `wild` or `spec` with the empty rest gives `true`. -/
def patsCompatible : List (List PEMatcher) → Path → Bool
  | [], _ => true
  | _, [] => true
  | pats, pe :: rest =>
    if pats.any List.isEmpty then true
    else
      let wild := pats.filterMap (fun p => match p with
        | m :: t => if m.wildcard then some t else none
        | [] => none)
      let spec := pats.filterMap (fun p => match p with
        | m :: t => if !m.wildcard && PE.equals m.pe pe then some t else none
        | [] => none)
      if !wild.isEmpty then patsCompatible wild rest
      else if !spec.isEmpty then patsCompatible spec rest
      else false

/-- a path is compatible with a list of matcher trees (the same recursion on trees, still without
merging): a wildcard set matches everything beneath it; otherwise the members with a wildcard path
contribute their children to `wild`, the members whose specific element `Equals` the head of the path
to `spec`, and the rest of the path has to be compatible with `wild` if there is any, else with `spec`
if there is any. The empty list of trees accepts everything (`mergeAll [] = MatchAnySet()`). -/
def treesCompatible : List SetMatcher → Path → Bool
  | [], _ => true
  | _, [] => true
  | ts, pe :: rest =>
    if ts.any (·.wildcard) then true
    else
      let wild := ts.flatMap (fun t => (t.members.filter (fun pm => pm.1.wildcard)).map (·.2))
      let spec := ts.flatMap (fun t =>
        (t.members.filter (fun pm => !pm.1.wildcard && PE.equals pm.1.pe pe)).map (·.2))
      if !wild.isEmpty then treesCompatible wild rest
      else if !spec.isEmpty then treesCompatible spec rest
      else false

/-- the invariant of matcher trees under which the first-match walk of `FilterIncludeMatches` and the
lookup of `Merge` are faithful: every node that is not a wildcard set has its members strictly ascending
for `PathElementMatcher.Less` — hence pairwise different paths (`Compare ≠ 0`, so at most one wildcard
member and no two members with `Equals` elements, int/float twins included) and the wildcard member
first — and the children are again such trees. Nothing is asked of the (ignored) members of a wildcard
set. It is what `NewSetMatcher` builds from members with pairwise different paths (`matcherWF_new`). -/
inductive MatcherWF : SetMatcher → Prop
  | wild (ms : List (PEMatcher × SetMatcher)) : MatcherWF (.mk true ms)
  | node (ms : List (PEMatcher × SetMatcher)) :
      ms.Pairwise (fun a b => PEMatcher.less a.1 b.1 = true) →
      (∀ pm ∈ ms, MatcherWF pm.2) → MatcherWF (.mk false ms)

/-! ### bridges to the copies used in `SMD.Proofs.MatcherMerge` -/

private theorem compatible_eq' (pat : SetMatcher) (q : Path) : compatible pat q = isCompatible pat q := by
  fun_induction compatible pat q <;> simp [isCompatible, *]

private theorem patsCompatible_eq : ∀ (q : Path) (pats : List (List PEMatcher)),
    patsCompatible pats q = SetMatcher.patsCompat pats q := by
  intro q
  induction q with
  | nil => intro pats; cases pats <;> rfl
  | cons pe r ih =>
    intro pats
    cases pats with
    | nil => rfl
    | cons p ps =>
      rw [SetMatcher.patsCompat_cons, patsCompatible]
      · simp only [ih]; rfl
      · simp

private theorem treesCompatible_eq : ∀ (q : Path) (ts : List SetMatcher),
    treesCompatible ts q = SetMatcher.treesCompat ts q := by
  intro q
  induction q with
  | nil => intro ts; cases ts <;> rfl
  | cons pe r ih =>
    intro ts
    cases ts with
    | nil => rfl
    | cons t ts =>
      rw [SetMatcher.treesCompat_cons, treesCompatible]
      · simp only [ih]; rfl
      · simp

private theorem matcherWF_iff (m : SetMatcher) : MatcherWF m ↔ SetMatcher.WF m := by
  constructor
  · intro h
    induction h with
    | wild ms => exact .wild ms
    | node ms hs _ ih => exact .node ms hs ih
  · intro h
    induction h with
    | wild ms => exact .wild ms
    | node ms hs _ ih => exact .node ms hs ih

/-! ### the invariant -/

/-- `PrefixMatcher(parts…)` is well formed -/
theorem ofPrefix_wf (parts : List PEMatcher) : MatcherWF (SetMatcher.ofPrefix parts) :=
  (matcherWF_iff _).2 (SetMatcher.wf_ofPrefix parts)

/-- `NewSetMatcher(wildcard, members…)` is well formed when the members have pairwise different paths
and well-formed children (whatever their order: `NewSetMatcher` sorts them) -/
theorem matcherWF_new (w : Bool) (ms : List (PEMatcher × SetMatcher))
    (hd : ms.Pairwise (fun a b => PEMatcher.compare a.1 b.1 ≠ .eq)) (hc : ∀ pm ∈ ms, MatcherWF pm.2) :
    MatcherWF (SetMatcher.new w ms) :=
  (matcherWF_iff _).2 (SetMatcher.wf_new w hd (fun pm h => (matcherWF_iff _).1 (hc pm h)))

/-- `Merge` keeps matcher trees well formed, given fuel for the right operand -/
theorem merge_wf (fuel : Nat) (a b : SetMatcher) (ha : MatcherWF a) (hb : MatcherWF b)
    (hfuel : SetMatcher.sizeM b ≤ fuel) : MatcherWF (SetMatcher.merge fuel a b) :=
  (matcherWF_iff _).2 (SetMatcher.wf_merge fuel a b ((matcherWF_iff _).1 ha) ((matcherWF_iff _).1 hb) hfuel)

/-- the fuel `mergeAll` passes is enough: merging a list of well-formed trees gives a well-formed tree -/
theorem mergeAll_wf (ms : List SetMatcher) (h : ∀ m ∈ ms, MatcherWF m) : MatcherWF (SetMatcher.mergeAll ms) :=
  (matcherWF_iff _).2 (SetMatcher.wf_mergeAll ms (fun m hm => (matcherWF_iff _).1 (h m hm)))

/-! ### semantics of `Merge` -/

/-- on ONE well-formed tree the list semantics is the first-match walk of the filter -/
theorem treesCompatible_single (m : SetMatcher) (hm : MatcherWF m) (q : Path) :
    treesCompatible [m] q = compatible m q := by
  rw [treesCompatible_eq, compatible_eq']
  exact SetMatcher.treesCompat_single q m ((matcherWF_iff _).1 hm)

/-- one `Merge` (with fuel for the right operand) replaces the first two trees of a list by one tree
without changing the paths the list is compatible with -/
theorem treesCompatible_merge (fuel : Nat) (a b : SetMatcher) (rest : List SetMatcher) (q : Path)
    (ha : MatcherWF a) (hb : MatcherWF b) (hfuel : SetMatcher.sizeM b ≤ fuel) :
    treesCompatible (a :: b :: rest) q = treesCompatible (SetMatcher.merge fuel a b :: rest) q := by
  rw [treesCompatible_eq, treesCompatible_eq]
  exact SetMatcher.treesCompat_merge q fuel a b rest ((matcherWF_iff _).1 ha) ((matcherWF_iff _).1 hb) hfuel

/-- for two trees: the merged matcher accepts what the pair accepts -/
theorem merge_spec (fuel : Nat) (a b : SetMatcher) (q : Path)
    (ha : MatcherWF a) (hb : MatcherWF b) (hfuel : SetMatcher.sizeM b ≤ fuel) :
    compatible (SetMatcher.merge fuel a b) q = treesCompatible [a, b] q := by
  rw [treesCompatible_merge fuel a b [] q ha hb hfuel,
    treesCompatible_single _ (merge_wf fuel a b ha hb hfuel)]

/-- the trees of prefix patterns: the tree semantics is the pattern semantics -/
theorem treesCompatible_ofPrefix (pats : List (List PEMatcher)) (q : Path) :
    treesCompatible (pats.map SetMatcher.ofPrefix) q = patsCompatible pats q := by
  rw [treesCompatible_eq, patsCompatible_eq]
  exact SetMatcher.treesCompat_ofPrefix q pats

/-- the matcher merged from well-formed trees (e.g. built with `NewSetMatcher` without a repeated path
in a node) is compatible with exactly the paths the list of trees is compatible with. (Also true of
the empty list, both sides being `true` by convention; the hypothesis is kept to match the harness.) -/
theorem merge_trees_spec (ms : List SetMatcher) (_hne : ms ≠ []) (hwf : ∀ m ∈ ms, MatcherWF m) (q : Path) :
    compatible (SetMatcher.mergeAll ms) q = treesCompatible ms q := by
  rw [treesCompatible_eq, compatible_eq']
  exact SetMatcher.isCompatible_mergeAll ms q (fun m hm => (matcherWF_iff _).1 (hwf m hm))

/-- the matcher merged from a list of prefix patterns is compatible with exactly the paths compatible
with one of the patterns, wildcards shadowing specific elements at the same position. No hypothesis
on the patterns: repeated patterns, patterns that are prefixes of one another, int/float twin elements
are all covered. -/
theorem merge_patterns_spec (pats : List (List PEMatcher)) (_hne : pats ≠ []) (q : Path) :
    compatible (SetMatcher.mergeAll (pats.map SetMatcher.ofPrefix)) q = patsCompatible pats q := by
  rw [← treesCompatible_ofPrefix]
  cases pats with
  | nil => exact absurd rfl _hne
  | cons p ps =>
    apply merge_trees_spec _ (by simp)
    intro m hm
    obtain ⟨p', _, rfl⟩ := List.mem_map.1 hm
    exact ofPrefix_wf p'

/-- C19 for include patterns, from the list of patterns the user gives: the filter keeps exactly the
members compatible with one of the patterns -/
theorem include_patterns_spec (pats : List (List PEMatcher)) (hne : pats ≠ []) (s : SetTrie) (q : Path)
    (hs : s.wf = true) (hq : q ≠ []) :
    (Filter.apply (.include (SetMatcher.mergeAll (pats.map SetMatcher.ofPrefix))) s).has q =
      (s.has q && patsCompatible pats q) := by
  rw [include_filter_spec _ s q hs hq, merge_patterns_spec pats hne]

/-- …and from a list of well-formed matcher trees -/
theorem include_trees_spec (ms : List SetMatcher) (hne : ms ≠ []) (hwf : ∀ m ∈ ms, MatcherWF m)
    (s : SetTrie) (q : Path) (hs : s.wf = true) (hq : q ≠ []) :
    (Filter.apply (.include (SetMatcher.mergeAll ms)) s).has q = (s.has q && treesCompatible ms q) := by
  rw [include_filter_spec _ s q hs hq, merge_trees_spec ms hne hwf]

/-! ### non-vacuity: both sides evaluated on concrete lists of patterns -/

private def f (s : String) : PEMatcher := ⟨false, .field s⟩
private def star : PEMatcher := ⟨true, .invalid⟩
private def p (l : List String) : Path := l.map PE.field

/-- `.a.b`, `.a.*.c`, `.a.b.d`: a shared prefix, a wildcard next to the specific member `b` under `.a`,
and `.a.b` a strict prefix of `.a.b.d` -/
private def patsA : List (List PEMatcher) := [[f "a", f "b"], [f "a", star, f "c"], [f "a", f "b", f "d"]]
private def mergedA : SetMatcher := SetMatcher.mergeAll (patsA.map SetMatcher.ofPrefix)

/-- the merged matcher: one member `a`, under it the wildcard member first, then `b` whose child is the
wildcard set (`.a.b` swallowed `.a.b.d`) -/
example : mergedA =
    .mk false [(f "a", .mk false [(star, .mk false [(f "c", .mk true [])]), (f "b", .mk true [])])] := by
  rfl

example : compatible mergedA [] = true ∧ patsCompatible patsA [] = true := by decide
example : compatible mergedA (p ["a"]) = true ∧ patsCompatible patsA (p ["a"]) = true := by decide
example : compatible mergedA (p ["a", "b"]) = true ∧ patsCompatible patsA (p ["a", "b"]) = true := by decide
example : compatible mergedA (p ["a", "x", "c"]) = true ∧ patsCompatible patsA (p ["a", "x", "c"]) = true := by
  decide
example : compatible mergedA (p ["a", "b", "c", "y"]) = true ∧
    patsCompatible patsA (p ["a", "b", "c", "y"]) = true := by decide
-- dropped: nothing matches at the first position
example : compatible mergedA (p ["z"]) = false ∧ patsCompatible patsA (p ["z"]) = false := by decide
-- dropped: the wildcard pattern wants `c` in third position
example : compatible mergedA (p ["a", "x", "d"]) = false ∧ patsCompatible patsA (p ["a", "x", "d"]) = false := by
  decide
-- dropped although the patterns `.a.b` and `.a.b.d` match it: the wildcard of `.a.*.c` shadows `b`
example : compatible mergedA (p ["a", "b", "d"]) = false ∧ patsCompatible patsA (p ["a", "b", "d"]) = false := by
  decide

/-- `.a.b`, `.a.b.d`, `.a.c.e`, no wildcard: the shorter pattern keeps everything beneath `.a.b` -/
private def patsB : List (List PEMatcher) := [[f "a", f "b", f "d"], [f "a", f "c", f "e"], [f "a", f "b"]]
private def mergedB : SetMatcher := SetMatcher.mergeAll (patsB.map SetMatcher.ofPrefix)

example : mergedB =
    .mk false [(f "a", .mk false [(f "b", .mk true []), (f "c", .mk false [(f "e", .mk true [])])])] := by
  rfl
example : compatible mergedB (p ["a", "b", "z"]) = true ∧ patsCompatible patsB (p ["a", "b", "z"]) = true := by
  decide
example : compatible mergedB (p ["a", "c", "e", "z"]) = true ∧
    patsCompatible patsB (p ["a", "c", "e", "z"]) = true := by decide
example : compatible mergedB (p ["a", "c"]) = true ∧ patsCompatible patsB (p ["a", "c"]) = true := by decide
example : compatible mergedB (p ["a", "c", "z"]) = false ∧ patsCompatible patsB (p ["a", "c", "z"]) = false := by
  decide
example : compatible mergedB (p ["a", "d"]) = false ∧ patsCompatible patsB (p ["a", "d"]) = false := by decide

/-- int/float twin elements are one member: `[1]` and `[1.0].x` merge into the wildcard set under `[1]` -/
private def patsC : List (List PEMatcher) :=
  [[⟨false, .value (.float scale false)⟩, f "x"], [⟨false, .value (.int 1)⟩]]
example : compatible (SetMatcher.mergeAll (patsC.map SetMatcher.ofPrefix)) [.value (.int 1), .field "y"] = true ∧
    patsCompatible patsC [.value (.int 1), .field "y"] = true := by decide +kernel

/-- the theorems apply (the hypotheses are satisfiable): a well-formed set filtered by `patsA` -/
example (s : SetTrie) (hs : s.wf = true) :
    (Filter.apply (.include mergedA) s).has (p ["a", "b", "d"]) = false := by
  rw [mergedA, include_patterns_spec patsA (by decide) s _ hs (by decide)]
  have : patsCompatible patsA (p ["a", "b", "d"]) = false := by decide
  rw [this, Bool.and_false]

/-- the invariant is needed: a node with the same path twice (what the defective `Merge` of the Go
library produced) is walked by the filter through its FIRST member only, while the list semantics sees
both -/
example : compatible (.mk false [(f "a", SetMatcher.ofPrefix [f "b"]), (f "a", SetMatcher.ofPrefix [f "c"])])
      (p ["a", "c"]) = false ∧
    treesCompatible [.mk false [(f "a", SetMatcher.ofPrefix [f "b"]), (f "a", SetMatcher.ofPrefix [f "c"])]]
      (p ["a", "c"]) = true := by decide

/-- `merge_trees_spec` applies to trees built with `NewSetMatcher` (members given in any order, no
repeated path in a node) -/
private def t1 : SetMatcher :=
  SetMatcher.new false [(f "b", SetMatcher.ofPrefix []), (star, SetMatcher.ofPrefix [f "c"])]
private def t2 : SetMatcher := SetMatcher.new false [(f "b", SetMatcher.ofPrefix [f "d"]), (f "a", SetMatcher.ofPrefix [])]

example : ∀ m ∈ [t1, t2], MatcherWF m := by
  intro m hm
  simp only [List.mem_cons, List.not_mem_nil, or_false] at hm
  rcases hm with rfl | rfl
  · refine matcherWF_new _ _ (by decide) ?_
    intro pm h
    simp only [List.mem_cons, List.not_mem_nil, or_false] at h
    rcases h with rfl | rfl <;> exact ofPrefix_wf _
  · refine matcherWF_new _ _ (by decide) ?_
    intro pm h
    simp only [List.mem_cons, List.not_mem_nil, or_false] at h
    rcases h with rfl | rfl <;> exact ofPrefix_wf _
example : compatible (SetMatcher.mergeAll [t1, t2]) (p ["b", "c"]) = true ∧
    treesCompatible [t1, t2] (p ["b", "c"]) = true := by decide
example : compatible (SetMatcher.mergeAll [t1, t2]) (p ["b", "d"]) = false ∧
    treesCompatible [t1, t2] (p ["b", "d"]) = false := by decide
example : compatible (SetMatcher.mergeAll [t1, t2]) (p ["a", "z"]) = false ∧
    treesCompatible [t1, t2] (p ["a", "z"]) = false := by decide

end SMD.C19
