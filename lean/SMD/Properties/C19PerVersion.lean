/-
C19 along every history under a PER-VERSION ignore configuration.

The ignore configuration of an updater is a map from API version to filter (`Updater.ignore`): a version
without an entry has nothing ignored, different versions may carry different filters, and exclusion sets
and include patterns may be mixed.  Every record carries the version it was written at.  For every
reachable state (`SMD/Spec/History.lean`: any finite sequence of successful apply / forced apply / update
steps by any managers at any versions), every converter and every schema:

  every path of every record is let through by the filter of THE RECORD'S OWN version
  (`reachable_respects_version_filter`).

`reachable_never_owns_ignored` (`C19History.lean`, one exclusion set at every version) and
`reachable_owns_only_included` (`C19Include.lean`, one include pattern at every version) are the special
cases of a constant configuration (`reachable_never_owns_ignored'`, `reachable_owns_only_included'`).

Nothing is claimed about the filter of a version other than the record's: a record at v2 may own a path
that the filter of v1 ignores (non-vacuity example at the end).
-/
import SMD.Proofs.HistoryPerVersion
import SMD.Properties.C19History
import SMD.Properties.C19Include
import SMD.Proofs.NonVacuityWorlds
namespace SMD.C19
open History

/-- `RespectsFilter` (`SMD/Proofs/HistoryPerVersion.lean`) spelled out: no entry lets everything through,
an exclusion set lets through what it does not ignore, an include pattern what is compatible with it -/
theorem respectsFilter_iff (f : Option Filter) (q : Path) :
    RespectsFilter f q ↔
      match f with
      | none => True
      | some (.exclude ex) => ignoredBy ex q = false
      | some (.include pat) => compatible pat q = true := by
  match f with
  | none => exact Iff.rfl
  | some (.exclude _) => exact Iff.rfl
  | some (.include _) => exact Iff.rfl

/-- the filter lets through every prefix of a path it lets through -/
theorem respectsFilter_of_prefix (f : Option Filter) (q r : Path) (h : RespectsFilter f (q ++ r)) :
    RespectsFilter f q :=
  respectsFilter_prefix h

/-- in every reachable state, under any ignore configuration whose exclusion sets are well-formed sets,
every path of every record is let through by the filter of the record's own version -/
theorem reachable_respects_version_filter (u : Updater) (sc : Schema) (tr : TypeRef) (st : State)
    (hwf : ∀ v ex, u.ignore v = some (.exclude ex) → ex.wf = true)
    (h : Reachable u sc tr st) :
    ∀ x, x ∈ st.managed → ∀ q, x.2.set.has q = true →
      match u.ignore x.2.version with
      | none => True
      | some (.exclude ex) => ignoredBy ex q = false
      | some (.include pat) => compatible pat q = true :=
  fun x hx q hq => (respectsFilter_iff _ q).1 (reachable_respectsVersions hwf h x hx q hq)

/-- the same with the predicate `RespectsFilter` -/
theorem reachable_respects_version_filter' (u : Updater) (sc : Schema) (tr : TypeRef) (st : State)
    (hwf : ∀ v ex, u.ignore v = some (.exclude ex) → ex.wf = true)
    (h : Reachable u sc tr st) :
    ∀ x, x ∈ st.managed → ∀ q, x.2.set.has q = true → RespectsFilter (u.ignore x.2.version) q :=
  reachable_respectsVersions hwf h

/-- one successful Apply preserves the per-version invariant (together with the structural invariant of
`reachable_managed_wellformed`), whatever version the actor's previous record was at -/
theorem apply_respects_version_filter (u : Updater) (sc : Schema) (live cfg : TV) (ver : String) (m : Managed)
    (mgr : String) (force : Bool) (obj : Option TV) (mf : Managed)
    (hwf : ∀ v ex, u.ignore v = some (.exclude ex) → ex.wf = true)
    (h : apply u sc live cfg ver m mgr force = .ok (obj, mf))
    (hs : m.Pairwise (fun a b => a.1 < b.1)) (hw : ∀ x, x ∈ m → x.2.set.wf = true)
    (hne : ∀ x, x ∈ m → x.2.set.isEmpty = false)
    (hn : ∀ x, x ∈ m → ∀ q, x.2.set.has q = true → RespectsFilter (u.ignore x.2.version) q) :
    ∀ x, x ∈ mf → ∀ q, x.2.set.has q = true → RespectsFilter (u.ignore x.2.version) q :=
  apply_respectsVersions hwf h ⟨hs, hw, hne⟩ hn

/-- … and so does one successful Update -/
theorem update_respects_version_filter (u : Updater) (sc : Schema) (live newObj : TV) (ver : String) (m : Managed)
    (mgr : String) (mf : Managed)
    (hwf : ∀ v ex, u.ignore v = some (.exclude ex) → ex.wf = true)
    (h : update u sc live newObj ver m mgr = .ok mf)
    (hs : m.Pairwise (fun a b => a.1 < b.1)) (hw : ∀ x, x ∈ m → x.2.set.wf = true)
    (hne : ∀ x, x ∈ m → x.2.set.isEmpty = false)
    (hn : ∀ x, x ∈ m → ∀ q, x.2.set.has q = true → RespectsFilter (u.ignore x.2.version) q) :
    ∀ x, x ∈ mf → ∀ q, x.2.set.has q = true → RespectsFilter (u.ignore x.2.version) q :=
  update_respectsVersions hwf h ⟨hs, hw, hne⟩ hn

/-! ### the single-configuration theorems are the constant case -/

/-- `reachable_never_owns_ignored` from the per-version theorem -/
theorem reachable_never_owns_ignored' (u : Updater) (sc : Schema) (tr : TypeRef) (ex : SetTrie) (st : State)
    (hex : ex.wf = true) (hig : ExcludesEverywhere u ex) (h : Reachable u sc tr st) :
    ∀ x, x ∈ st.managed → ∀ q, x.2.set.has q = true → ignoredBy ex q = false := by
  intro x hx q hq
  have hwf : ∀ v ex', u.ignore v = some (.exclude ex') → ex'.wf = true := by
    intro v ex' e
    rw [hig v] at e
    cases e
    exact hex
  have := reachable_respects_version_filter u sc tr st hwf h x hx q hq
  rw [hig x.2.version] at this
  exact this

/-- `reachable_owns_only_included` from the per-version theorem -/
theorem reachable_owns_only_included' (u : Updater) (sc : Schema) (tr : TypeRef) (pat : SetMatcher) (st : State)
    (hig : IncludesEverywhere u pat) (h : Reachable u sc tr st) :
    ∀ x, x ∈ st.managed → ∀ q, x.2.set.has q = true → compatible pat q = true := by
  intro x hx q hq
  have hwf : ∀ v ex', u.ignore v = some (.exclude ex') → ex'.wf = true := by
    intro v ex' e
    rw [hig v] at e
    cases e
  have := reachable_respects_version_filter u sc tr st hwf h x hx q hq
  rw [hig x.2.version] at this
  exact this

/-- a mixed configuration: an exclusion set at the versions of `vex`, an include pattern at those of `vin`
(whatever the other versions carry): records at the former own nothing ignored, records at the latter only
what the pattern keeps -/
theorem reachable_mixed (u : Updater) (sc : Schema) (tr : TypeRef) (st : State)
    (hwf : ∀ v ex, u.ignore v = some (.exclude ex) → ex.wf = true) (h : Reachable u sc tr st)
    (x : String × VersionedSet) (hx : x ∈ st.managed) (q : Path) (hq : x.2.set.has q = true) :
    (∀ ex, u.ignore x.2.version = some (.exclude ex) → ignoredBy ex q = false) ∧
    (∀ pat, u.ignore x.2.version = some (.include pat) → compatible pat q = true) := by
  have := reachable_respects_version_filter u sc tr st hwf h x hx q hq
  refine ⟨fun ex e => ?_, fun pat e => ?_⟩ <;> (rw [e] at this; exact this)

/-! ### non-vacuity: `.f1.y` ignored at v1 only -/

section NonVacuity
open SMD.FW SMD.NV

/-- the exclusion set `{.f1.y}` at version "v1", no entry for any other version -/
def v1Only : Updater :=
  { converter := Converter.identity,
    ignore := fun v => if v = "v1" then some (.exclude ignoreSet) else none }

/-- a1 owns `.f1.x` at v1, u1 owns `.f1.y` at v2 -/
def mfPV : Managed := [("a1", ⟨setX, "v1", true⟩), ("u1", ⟨setY, "v2", false⟩)]

/-- a1 applies `{f1: {x: 1, y: 1}}` at v1: `.f1.y` is ignored at v1, a1 owns `.f1.x` only -/
theorem pv_first_apply :
    apply v1Only sc live0 (tv d8cfg1) "v1" [] "a1" false = .ok (some (tv d8cfg1), d8mf1) := by eval_apply

/-- u1 updates to `{f1: {x: 1, y: 2}}` at v2, where nothing is ignored: u1 owns `.f1.y` at v2 -/
theorem pv_update : update v1Only sc (tv d8cfg1) (tv objY2) "v2" d8mf1 "u1" = .ok mfPV := by eval_update2

theorem pv_reach1 : Reachable v1Only sc rootTR ⟨d8cfg1, d8mf1⟩ :=
  .step ⟨.null, []⟩ _ .init (.apply ⟨.null, []⟩ d8cfg1 "v1" "a1" false (some (tv d8cfg1)) d8mf1 pv_first_apply)

/-- the state with records at two versions is reachable -/
theorem pv_reach2 : Reachable v1Only sc rootTR ⟨objY2, mfPV⟩ :=
  .step ⟨d8cfg1, d8mf1⟩ _ pv_reach1 (.update ⟨d8cfg1, d8mf1⟩ objY2 "v2" "u1" mfPV pv_update)

theorem v1Only_wf : ∀ v ex, v1Only.ignore v = some (.exclude ex) → ex.wf = true := by
  intro v ex e
  simp only [v1Only] at e
  split at e
  · cases e; exact ignoreSet_wf
  · cases e

/-- the theorem on the reachable two-version state -/
example : ∀ x, x ∈ mfPV → ∀ q, x.2.set.has q = true →
    match v1Only.ignore x.2.version with
    | none => True
    | some (.exclude ex) => ignoredBy ex q = false
    | some (.include pat) => compatible pat q = true :=
  reachable_respects_version_filter v1Only sc rootTR ⟨objY2, mfPV⟩ v1Only_wf pv_reach2

/-- what it says there: the record at v1 owns nothing that the exclusion set of v1 ignores … -/
example : ∀ q, setX.has q = true → ignoredBy ignoreSet q = false :=
  fun q hq => reachable_respects_version_filter v1Only sc rootTR ⟨objY2, mfPV⟩ v1Only_wf pv_reach2
    ("a1", ⟨setX, "v1", true⟩) (by simp [mfPV]) q hq

/-- … while the record at v2 legitimately owns `.f1.y`, which the exclusion set of v1 ignores: nothing is
ignored at v2 (so the invariant of the constant configuration, `reachable_never_owns_ignored`, does not
hold of this updater with `ex := ignoreSet`, and the per-version statement is not a consequence of it) -/
example : mfGet mfPV "u1" = some ⟨setY, "v2", false⟩ ∧ setY.has pY = true ∧ ignoredBy ignoreSet pY = true ∧
    v1Only.ignore "v2" = none ∧ v1Only.ignore "v1" = some (.exclude ignoreSet) ∧
    mfGet mfPV "a1" = some ⟨setX, "v1", true⟩ ∧ setX.has pX = true ∧ setX.has pY = false ∧
    ignoredBy ignoreSet pX = false :=
  ⟨rfl, by decide, by decide, rfl, rfl, rfl, by decide, by decide, by decide⟩

/-- the constant-configuration conclusion fails on this reachable state -/
example : ¬ ∀ x, x ∈ mfPV → ∀ q, x.2.set.has q = true → ignoredBy ignoreSet q = false :=
  fun h => absurd (h ("u1", ⟨setY, "v2", false⟩) (by simp [mfPV]) pY (by decide)) (by decide)

/-- a manager that applies again at ANOTHER version: a1, recorded at v1 with `.f1.x`, applies the same
`{f1: {x: 1, y: 1}}` at v2; its record is replaced by one at v2 filtered with the (absent) filter of v2, and
now owns `.f1.y` too -/
theorem pv_reapply_v2 :
    apply v1Only sc (tv d8cfg1) (tv d8cfg1) "v2" d8mf1 "a1" false = .ok (none, [("a1", ⟨setXY, "v2", true⟩)]) := by
  eval_apply

theorem pv_reach3 : Reachable v1Only sc rootTR ⟨d8cfg1, [("a1", ⟨setXY, "v2", true⟩)]⟩ :=
  .step ⟨d8cfg1, d8mf1⟩ _ pv_reach1 (.apply ⟨d8cfg1, d8mf1⟩ d8cfg1 "v2" "a1" false none _ pv_reapply_v2)

example : setXY.has pY = true ∧ ignoredBy ignoreSet pY = true := ⟨by decide, by decide⟩

/-- … and back at v1 the filter of v1 applies again: the record at v1 does not contain `.f1.y` (and the
field, owned by a1 at v2 and no longer in its record, is removed from the object: finding D8) -/
theorem pv_reapply_v1 :
    apply v1Only sc (tv d8cfg1) (tv d8cfg1) "v1" [("a1", ⟨setXY, "v2", true⟩)] "a1" false =
      .ok (some (tv cfgX1), d8mf1) := by
  eval_apply

/-- the exclusion set is not empty -/
example : ignoreSet.isEmpty = false ∧ ignoreSet.has pY = true := ⟨by decide, by decide⟩

end NonVacuity

end SMD.C19

#print axioms SMD.C19.reachable_respects_version_filter
#print axioms SMD.C19.reachable_respects_version_filter'
#print axioms SMD.C19.apply_respects_version_filter
#print axioms SMD.C19.update_respects_version_filter
#print axioms SMD.C19.reachable_never_owns_ignored'
#print axioms SMD.C19.reachable_owns_only_included'
#print axioms SMD.C19.reachable_mixed
#print axioms SMD.C19.respectsFilter_iff
#print axioms SMD.C19.respectsFilter_of_prefix
#print axioms SMD.C19.pv_first_apply
#print axioms SMD.C19.pv_update
#print axioms SMD.C19.pv_reach2
#print axioms SMD.C19.v1Only_wf
#print axioms SMD.C19.pv_reapply_v2
#print axioms SMD.C19.pv_reach3
#print axioms SMD.C19.pv_reapply_v1
