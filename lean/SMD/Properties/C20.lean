/-
C20 — API versions and schema evolution are transparent (clause (a): managers recorded at a version
the converter reports as gone are dropped without error and without affecting anything else).
Clauses (b) reconcile and (c) lossless converters are decided by the `rec` / `upd` correspondence
domains and their judges.
-/
import SMD.Proofs.UpdaterShape
namespace SMD.C20

/-- the converter reports version `v` as missing -/
def MissingAt (u : Updater) (v : String) : Prop := ∀ tv, u.converter.convert tv v = .missing

/-- after the reconcile step no manager recorded at a missing version remains, and no error arises from it -/
theorem reconcile_drops_missing (u : Updater) (sc : Schema) (live : TV) (m m' : Managed) (v : String)
    (hm : MissingAt u v) :
    reconcileManaged u sc live m = .ok m' → ∀ x, x ∈ m' → x.2.version ≠ v :=
  reconcileManaged_versions u sc live v hm m m'

/-- …and the result equals the result on the state without those records -/
theorem reconcile_ignores_missing (u : Updater) (sc : Schema) (live : TV) (m : Managed) (v : String)
    (hm : MissingAt u v) :
    reconcileManaged u sc live m = reconcileManaged u sc live (m.filter (fun x => x.2.version != v)) :=
  reconcileManaged_filter_missing u sc live v hm m

/-- hence Apply and Update behave exactly as on the state without the records at the missing version -/
theorem apply_ignores_missing (u : Updater) (sc : Schema) (live cfg : TV) (ver : String) (m : Managed)
    (mgr : String) (force : Bool) (v : String) (hm : MissingAt u v) :
    apply u sc live cfg ver m mgr force =
      apply u sc live cfg ver (m.filter (fun x => x.2.version != v)) mgr force :=
  apply_congr_reconcile (reconcileManaged_filter_missing u sc live v hm m) cfg ver mgr force

theorem update_ignores_missing (u : Updater) (sc : Schema) (live newObj : TV) (ver : String) (m : Managed)
    (mgr : String) (v : String) (hm : MissingAt u v) :
    update u sc live newObj ver m mgr =
      update u sc live newObj ver (m.filter (fun x => x.2.version != v)) mgr :=
  update_congr_reconcile (reconcileManaged_filter_missing u sc live v hm m) newObj ver mgr

end SMD.C20
