/-
C20 (b) — when a field's type turns atomic: each manager that owned the field or anything beneath it
ends up owning exactly the atomic field, no record keeps a path beneath it, nothing else changes, and
reconciling again changes nothing. Statements about `reconcileFieldSet` (typed.ReconcileFieldSetWithSchema)
for one record; `reconcileManaged` applies it to every record independently
(SMD/Proofs/OwnershipShape.lean).
-/
import SMD.Proofs.ReconcileLaws
namespace SMD.C20

/-- what reconcile removes lies at or beneath what it adds, and what it adds is a prefix of something the
record owned: every member of the old record is a member of the new one or has a prefix that is -/
theorem reconcile_covers_old (sc : Schema) (fs fs' : SetTrie) (tr : TypeRef) (p : Path)
    (hwf : fs.wf = true) (h : reconcileFieldSet sc fs tr = .ok (some fs')) (hp : fs.has p = true) :
    ∃ q, q <+: p ∧ q ≠ [] ∧ fs'.has q = true :=
  reconcile_covers_old' hwf h hp

/-- every member of the new record is a member of the old one or a strict prefix of one -/
theorem reconcile_new_from_old (sc : Schema) (fs fs' : SetTrie) (tr : TypeRef) (q : Path)
    (hwf : fs.wf = true) (h : reconcileFieldSet sc fs tr = .ok (some fs')) (hq : fs'.has q = true) :
    fs.has q = true ∨ ∃ r, r ≠ [] ∧ fs.has (q ++ r) = true :=
  reconcile_new_from_old' hwf h hq

/-- a member that reconcile adds has no member beneath it afterwards: no record keeps a path beneath
an atomic field -/
theorem reconcile_nothing_beneath_added (sc : Schema) (fs fs' : SetTrie) (tr : TypeRef) (q r : Path)
    (hwf : fs.wf = true) (h : reconcileFieldSet sc fs tr = .ok (some fs'))
    (hq : fs'.has q = true) (hnew : fs.has q = false) (hr : r ≠ []) :
    fs'.has (q ++ r) = false :=
  reconcile_nothing_beneath_added' hwf h hq hnew hr

-- STATEMENT-FALSE: when the ROOT type is atomic (here: sc = no named types, tr = an inlined list of
-- strings with elementRelationship "atomic", fs = {[index 0]}), the walker emits toRemove = toAdd = [[]];
-- the empty path is ignored by `NewSet`, so the result is a non-nil set with the same members
-- (fs' = fs), and the second run does exactly the same: it returns `some fs'` again, not `none`.
-- /-- reconciling again changes nothing -/
-- theorem reconcile_idempotent (sc : Schema) (fs fs' : SetTrie) (tr : TypeRef)
--     (hwf : fs.wf = true) (h : reconcileFieldSet sc fs tr = .ok (some fs')) :
--     reconcileFieldSet sc fs' tr = .ok none
example : ¬ ∀ (sc : Schema) (fs fs' : SetTrie) (tr : TypeRef),
    fs.wf = true → reconcileFieldSet sc fs tr = .ok (some fs') →
    reconcileFieldSet sc fs' tr = .ok none := by
  intro H
  have h2 := H ⟨[]⟩ ReconcileCx.owned ReconcileCx.owned ReconcileCx.atomicList ReconcileCx.owned_wf
    ReconcileCx.first
  rw [ReconcileCx.first] at h2
  cases h2

/-- reconciling again changes nothing, whenever the first reconcile changed the members of the record
(which excludes exactly the atomic root: see `reconcile_idempotent_partial`) -/
theorem reconcile_idempotent_of_changed (sc : Schema) (fs fs' : SetTrie) (tr : TypeRef)
    (hwf : fs.wf = true) (h : reconcileFieldSet sc fs tr = .ok (some fs'))
    (hch : ∃ p, fs'.has p ≠ fs.has p) :
    reconcileFieldSet sc fs' tr = .ok none :=
  reconcile_idempotent_of_changed' hwf h hch

/-- reconciling again changes nothing, up to the representation of "no change": the second run
returns nil, or (atomic root) a set with the same members -/
theorem reconcile_idempotent_partial (sc : Schema) (fs fs' : SetTrie) (tr : TypeRef)
    (hwf : fs.wf = true) (h : reconcileFieldSet sc fs tr = .ok (some fs')) :
    reconcileFieldSet sc fs' tr = .ok none ∨
      ∃ fs'', reconcileFieldSet sc fs' tr = .ok (some fs'') ∧ ∀ p, fs''.has p = fs'.has p :=
  reconcile_idempotent_partial' hwf h

/-- the result is a well-formed set -/
theorem reconcile_wf (sc : Schema) (fs fs' : SetTrie) (tr : TypeRef)
    (hwf : fs.wf = true) (h : reconcileFieldSet sc fs tr = .ok (some fs')) : fs'.wf = true :=
  reconcileFieldSet_wf h hwf

end SMD.C20
