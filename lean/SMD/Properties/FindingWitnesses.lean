/-
Findings D8, D10 and D11 as theorems of the model: each is the negation of a property on a concrete
history, evaluated by the kernel (no `native_decide`, no axiom beyond propext / Classical.choice /
Quot.sound, which enter through `simp` and `omega` in `SMD/Proofs/SetOpsKernel.lean`).

World (`SMD/Proofs/FindingWorlds.lean`): one schema (a struct `root` with a struct field `f1 : {x, y}`
and a list `l` of items keyed by `name`, each carrying a set `sub` of numerics), the identity converter
(versions are labels), the live object `null` and no managed fields before the first operation.

How a whole `Apply` / `Update` is evaluated: `peUnion` / `peInter` / `peDiff` are compiled to
`WellFounded.fix` over a lexicographic pair and do not reduce, so every set operation is first rewritten
into its fuel-recursive copy (`SMD/Proofs/SetOpsKernel.lean`, each copy proved equal to the model's
operation); the closed equation is then closed by `Eq.refl`, checked by the kernel (`kernel_rfl` below;
`with_unfolding_all rfl` proves the same goals, in about 45 s of elaborator time instead of 3 s).

* D8  (C19): the value an applier gives to an ignored field is lost when the ignored field is all it
  applies (`d8_ignored_value_lost_witness`).
* D10 (C09): the result of an Apply depends on the order in which `addBackOwnedItems` visits the versions
  of `managedAtVersion`, a Go map (`d10_version_order_witness`).
* D11 (C20): with a lossless (identity) converter, the same re-apply gives a different object according
  to the version label it is made at (`d11_versioned_reapply_differs_witness`).
-/
import SMD.Proofs.FindingWorlds
import SMD.Proofs.SetOpsKernel
import SMD.Spec.Nodes
import Lean.Elab.Tactic.Basic

set_option maxRecDepth 100000

namespace SMD.FW
open SetTrie

/-- closes `a = b` with `Eq.refl a`, leaving the conversion check to the kernel alone (the elaborator's
own check of the same conversion is some fifty times slower on these terms) -/
elab "kernel_rfl" : tactic => do
  let g ← Lean.Elab.Tactic.getMainGoal
  let t ← Lean.instantiateMVars (← g.getType)
  match t.eq? with
  | some (α, a, _) =>
    let u ← Lean.Meta.getLevel α
    g.assign (Lean.mkApp2 (Lean.mkConst ``Eq.refl [u]) α a)
  | none => Lean.throwError "kernel_rfl: the goal is not an equality"

/-- evaluation of a closed `apply …` -/
macro "eval_apply" : tactic =>
  `(tactic| (unfold apply prune addBackOwned addBackDangling addBackForVersion updateCore applyIgnore filterCmp
               Filter.apply
             simp only [unionS_eq, interS_eq, diffS_eq, rdiffS_eq, managedAtVersionS_eq, updateLoopS_eq]
             kernel_rfl))

/-- evaluation of a closed `applyOrd perm …` -/
macro "eval_applyOrd" : tactic =>
  `(tactic| (unfold applyOrd pruneOrd addBackOwnedOrd addBackDangling addBackForVersion updateCore applyIgnore
               filterCmp Filter.apply
             simp only [unionS_eq, interS_eq, diffS_eq, rdiffS_eq, managedAtVersionS_eq, updateLoopS_eq]
             kernel_rfl))

/-- evaluation of a closed `update …` -/
macro "eval_update" : tactic =>
  `(tactic| (unfold update updateCore applyIgnore filterCmp Filter.apply
             simp only [unionS_eq, interS_eq, diffS_eq, rdiffS_eq, updateLoopS_eq]
             kernel_rfl))

/-! ### D8: the history -/

/-- the exclusion set is `{.f1.y}` -/
theorem ignoreSet_eq : ignoreSet = .node [] [(.field "f1", .node [.field "y"] [])] := by
  with_unfolding_all rfl

theorem ignoreSet_has : ignoreSet.has [.field "f1", .field "y"] = true := by with_unfolding_all rfl

/-- a1 applies `{f1: {x: 1, y: 1}}` at v1 on the empty object: the object is the configuration, a1 owns
`.f1.x` (`.f1.y` is ignored) -/
theorem d8_first_apply :
    apply ignoring sc live0 (tv d8cfg1) "v1" [] "a1" false = .ok (some (tv d8cfg1), d8mf1) := by
  eval_apply

/-- a1 then applies `{f1: {y: 2}}` at v1: the object returned is `null` and a1 owns nothing -/
theorem d8_second_apply :
    apply ignoring sc (tv d8cfg1) (tv d8cfg2) "v1" d8mf1 "a1" false = .ok (some (tv .null), []) := by
  eval_apply

/-- the second configuration gives the value 2 to `.f1.y` -/
theorem d8_config_value : Nodes.valueAt sc rootTR d8cfg2 [.field "f1", .field "y"] = some (.int 2) := by
  with_unfolding_all rfl

/-- `.f1.y` designates nothing in the object returned -/
theorem d8_result_value : Nodes.valueAt sc rootTR Value.null [.field "f1", .field "y"] = none := by
  with_unfolding_all rfl

/-! ### D10: the history -/

/-- a1's record after its first apply (at `ver`) -/
def mfA1 (ver : String) : Managed := [("a1", ⟨setSub0, ver, true⟩)]
/-- the records after u1's update at v1 -/
def mfA1U1 (ver : String) : Managed := [("a1", ⟨setSub0, ver, true⟩), ("u1", ⟨setSub1, "v1", false⟩)]
/-- the records after a re-apply (at `ver`) that leaves u1's record alone -/
def mfKept (ver : String) : Managed := [("a1", ⟨setBare, ver, true⟩), ("u1", ⟨setSub1, "v1", false⟩)]
/-- the records after a re-apply (at `ver`) that takes `.l[name=c].sub[=1]` away from u1 -/
def mfDropped (ver : String) : Managed := [("a1", ⟨setBare, ver, true⟩)]

/-- a1 applies `{l: [{name: c, sub: [0]}]}` at v2 -/
theorem d10_first_apply :
    apply plain sc live0 (tv cfgSub0) "v2" [] "a1" false = .ok (some (tv cfgSub0), mfA1 "v2") := by
  eval_apply

/-- u1 updates at v1 to `{l: [{name: c, sub: [0, 1]}]}`: u1 owns `.l[name=c].sub[=1]` -/
theorem d10_update :
    update plain sc (tv cfgSub0) (tv objSub01) "v1" (mfA1 "v2") "u1" = .ok (mfA1U1 "v2") := by
  eval_update

/-- a1 re-applies `{l: [{name: c}]}` at v4, versions visited in key order (v1, then v4): the item `1` of
`sub`, owned by u1, is removed and u1's record with it -/
theorem d10_reapply_key_order :
    applyOrd id plain sc (tv objSub01) (tv cfgBare) "v4" (mfA1U1 "v2") "a1" false =
      .ok (some (tv cfgBare), mfDropped "v4") := by
  eval_applyOrd

/-- the same re-apply, versions visited in the reverse order (v4, then v1): the item `1` stays -/
theorem d10_reapply_reverse_order :
    applyOrd swapOrd plain sc (tv objSub01) (tv cfgBare) "v4" (mfA1U1 "v2") "a1" false =
      .ok (some (tv objSub1), mfKept "v4") := by
  eval_applyOrd

/-- the versions the add-back of that re-apply ranges over besides the pruned one (v2, at which nothing
is recorded any more): v1 (u1's record) and v4 (a1's new record); the two orders are its two orders -/
theorem d10_versions_visited :
    (managedAtVersion (mfSet (mfA1U1 "v2") "a1" ⟨setBare, "v4", true⟩)).filter (·.1 != "v2") =
      [("v1", setSub1), ("v4", setBare)] := by
  simp only [managedAtVersionS_eq]
  with_unfolding_all rfl

theorem swapOrd_perm (l : List (String × SetTrie)) : (swapOrd l).Perm l := List.reverse_perm l

theorem value_cfgBare_ne_objSub1 : cfgBare ≠ objSub1 := by
  intro h
  simp [cfgBare, objSub1] at h

/-! ### D11: the history -/

/-- a1 applies `{l: [{name: c, sub: [0]}]}` at v1 -/
theorem d11_first_apply :
    apply plain sc live0 (tv cfgSub0) "v1" [] "a1" false = .ok (some (tv cfgSub0), mfA1 "v1") := by
  eval_apply

/-- u1 updates at v1 to `{l: [{name: c, sub: [0, 1]}]}` -/
theorem d11_update :
    update plain sc (tv cfgSub0) (tv objSub01) "v1" (mfA1 "v1") "u1" = .ok (mfA1U1 "v1") := by
  eval_update

/-- (i) a1 re-applies `{l: [{name: c}]}` at v1, the version of every record: u1's item stays -/
theorem d11_reapply_same_version :
    apply plain sc (tv objSub01) (tv cfgBare) "v1" (mfA1U1 "v1") "a1" false =
      .ok (some (tv objSub1), mfKept "v1") := by
  eval_apply

/-- (ii) a1 re-applies the same configuration at v2: u1's item is removed, and u1's record with it -/
theorem d11_reapply_other_version :
    apply plain sc (tv objSub01) (tv cfgBare) "v2" (mfA1U1 "v1") "a1" false =
      .ok (some (tv cfgBare), mfDropped "v2") := by
  eval_apply

theorem d11_kept_has : ((mfGet (mfKept "v1") "u1").map (·.set.has pathSub1)) = some true := by
  with_unfolding_all rfl
theorem d11_dropped_has : mfGet (mfDropped "v2") "u1" = none := by with_unfolding_all rfl

end SMD.FW

/-! ## the witnesses -/

namespace SMD.C19
open SMD.FW

/-- **D8.**  Updater ignoring `.f1.y` at v1, identity converter, `returnInputOnNoop = false`; live object
`null`, no managed fields.  Manager a1 applies `{f1: {x: 1, y: 1}}` at v1, then, on the object and
managed fields this returns, `{f1: {y: 2}}` at v1.  The second configuration gives 2 to the ignored
field `.f1.y`; the object the second apply returns is `null` (and a1 owns nothing): the applied value of
the ignored field is lost, together with everything else a1 had applied. -/
theorem d8_ignored_value_lost_witness :
    -- the ignore configuration
    ignoring.ignore "v1" = some (.exclude (SetTrie.ofPaths [[.field "f1", .field "y"]])) ∧
    -- first apply
    apply ignoring sc ⟨.null, rootTR⟩ ⟨d8cfg1, rootTR⟩ "v1" [] "a1" false =
      .ok (some ⟨d8cfg1, rootTR⟩, [("a1", ⟨d8set1, "v1", true⟩)]) ∧
    -- second apply, on the state the first returned
    apply ignoring sc ⟨d8cfg1, rootTR⟩ ⟨d8cfg2, rootTR⟩ "v1" [("a1", ⟨d8set1, "v1", true⟩)] "a1" false =
      .ok (some ⟨.null, rootTR⟩, []) ∧
    -- the configuration of the second apply gives 2 to `.f1.y` …
    Nodes.valueAt sc rootTR d8cfg2 [.field "f1", .field "y"] = some (.int 2) ∧
    -- … the object it returns does not
    Nodes.valueAt sc rootTR Value.null [.field "f1", .field "y"] ≠ some (.int 2) :=
  ⟨rfl, d8_first_apply, d8_second_apply, d8_config_value, by rw [d8_result_value]; simp⟩

/-- the same in the form "whatever object the second apply returns, `.f1.y` is not 2 in it" -/
theorem d8_ignored_value_lost :
    ∃ (v : Value) (t : TypeRef) (m : Managed),
      apply ignoring sc (tv d8cfg1) (tv d8cfg2) "v1" d8mf1 "a1" false = .ok (some ⟨v, t⟩, m) ∧
      Nodes.valueAt sc rootTR d8cfg2 [.field "f1", .field "y"] = some (.int 2) ∧
      Nodes.valueAt sc rootTR v [.field "f1", .field "y"] ≠ some (.int 2) :=
  ⟨.null, rootTR, [], d8_second_apply, d8_config_value, by rw [d8_result_value]; simp⟩

end SMD.C19

namespace SMD.C09
open SMD.FW

/-- **D10.**  Plain updater.  a1 applies `{l: [{name: c, sub: [0]}]}` at v2; u1 updates at v1 to
`{l: [{name: c, sub: [0, 1]}]}`; a1 re-applies `{l: [{name: c}]}` at v4.  The add-back of the last apply
ranges over the versions v1 and v4 (the pruned version v2 holds no record any more).  Visiting them in
the order (v1, v4) returns `{l: [{name: c}]}` and deletes u1's record; visiting them in the order
(v4, v1) returns `{l: [{name: c, sub: [1]}]}` and keeps it.  Both orders are permutations of the list,
and Go picks one at random. -/
theorem d10_version_order_witness :
    -- the history up to the re-apply
    apply plain sc ⟨.null, rootTR⟩ ⟨cfgSub0, rootTR⟩ "v2" [] "a1" false =
      .ok (some ⟨cfgSub0, rootTR⟩, mfA1 "v2") ∧
    update plain sc ⟨cfgSub0, rootTR⟩ ⟨objSub01, rootTR⟩ "v1" (mfA1 "v2") "u1" = .ok (mfA1U1 "v2") ∧
    -- the two orders are permutations (of the two versions v1, v4)
    (∀ l, (id l : List (String × SetTrie)).Perm l) ∧ (∀ l, (swapOrd l).Perm l) ∧
    -- the re-apply under each of them
    applyOrd id plain sc ⟨objSub01, rootTR⟩ ⟨cfgBare, rootTR⟩ "v4" (mfA1U1 "v2") "a1" false =
      .ok (some ⟨cfgBare, rootTR⟩, [("a1", ⟨setBare, "v4", true⟩)]) ∧
    applyOrd swapOrd plain sc ⟨objSub01, rootTR⟩ ⟨cfgBare, rootTR⟩ "v4" (mfA1U1 "v2") "a1" false =
      .ok (some ⟨objSub1, rootTR⟩, [("a1", ⟨setBare, "v4", true⟩), ("u1", ⟨setSub1, "v1", false⟩)]) ∧
    -- the two objects differ
    cfgBare ≠ objSub1 :=
  ⟨d10_first_apply, d10_update, fun _ => List.Perm.refl _, swapOrd_perm, d10_reapply_key_order,
    d10_reapply_reverse_order, value_cfgBare_ne_objSub1⟩

/-- the same in existential form; the first order is the one `SMD.apply` uses (`applyOrd_id`) -/
theorem d10_version_order :
    ∃ (perm₁ perm₂ : List (String × SetTrie) → List (String × SetTrie)) (o₁ o₂ : TV) (m₁ m₂ : Managed),
      (∀ l, (perm₁ l).Perm l) ∧ (∀ l, (perm₂ l).Perm l) ∧
      applyOrd perm₁ plain sc (tv objSub01) (tv cfgBare) "v4" (mfA1U1 "v2") "a1" false = .ok (some o₁, m₁) ∧
      applyOrd perm₂ plain sc (tv objSub01) (tv cfgBare) "v4" (mfA1U1 "v2") "a1" false = .ok (some o₂, m₂) ∧
      o₁.value ≠ o₂.value :=
  ⟨id, swapOrd, _, _, _, _, fun _ => List.Perm.refl _, swapOrd_perm, d10_reapply_key_order,
    d10_reapply_reverse_order, value_cfgBare_ne_objSub1⟩

end SMD.C09

namespace SMD.C20
open SMD.FW

/-- **D11.**  Plain updater, identity converter (so translating a state to a common version is the
identity and the statement below is literally the negation of "the versioned run equals the
single-version run").  a1 applies `{l: [{name: c, sub: [0]}]}` at v1; u1 updates at v1 to
`{l: [{name: c, sub: [0, 1]}]}`; a1 then re-applies `{l: [{name: c}]}`
(i) at v1: the object is `{l: [{name: c, sub: [1]}]}` and u1 still owns `.l[name=c].sub[=1]`;
(ii) at v2: the object is `{l: [{name: c}]}` and u1 has no record any more. -/
theorem d11_versioned_reapply_differs_witness :
    -- the history up to the re-apply
    apply plain sc ⟨.null, rootTR⟩ ⟨cfgSub0, rootTR⟩ "v1" [] "a1" false =
      .ok (some ⟨cfgSub0, rootTR⟩, mfA1 "v1") ∧
    update plain sc ⟨cfgSub0, rootTR⟩ ⟨objSub01, rootTR⟩ "v1" (mfA1 "v1") "u1" = .ok (mfA1U1 "v1") ∧
    -- (i) the re-apply at the version of every record
    apply plain sc ⟨objSub01, rootTR⟩ ⟨cfgBare, rootTR⟩ "v1" (mfA1U1 "v1") "a1" false =
      .ok (some ⟨objSub1, rootTR⟩, [("a1", ⟨setBare, "v1", true⟩), ("u1", ⟨setSub1, "v1", false⟩)]) ∧
    -- (ii) the re-apply at another version label
    apply plain sc ⟨objSub01, rootTR⟩ ⟨cfgBare, rootTR⟩ "v2" (mfA1U1 "v1") "a1" false =
      .ok (some ⟨cfgBare, rootTR⟩, [("a1", ⟨setBare, "v2", true⟩)]) ∧
    -- the two objects differ
    objSub1 ≠ cfgBare ∧
    -- u1 owns `.l[name=c].sub[=1]` after (i) and has no record after (ii)
    (mfGet (mfKept "v1") "u1").map (·.set.has pathSub1) = some true ∧
    mfGet (mfDropped "v2") "u1" = none :=
  ⟨d11_first_apply, d11_update, d11_reapply_same_version, d11_reapply_other_version,
    fun h => value_cfgBare_ne_objSub1 h.symm, d11_kept_has, d11_dropped_has⟩

/-- the same as the negation of a universally quantified property: for this converter (the identity:
every version is a label of the same type) the result of an Apply does depend on the version label -/
theorem d11_result_depends_on_version_label :
    ¬ (∀ (live cfg : TV) (m : Managed) (mgr : String) (v v' : String) (o o' : TV) (mf mf' : Managed),
        apply plain sc live cfg v m mgr false = .ok (some o, mf) →
        apply plain sc live cfg v' m mgr false = .ok (some o', mf') →
        o.value = o'.value) := by
  intro h
  exact value_cfgBare_ne_objSub1 (h _ _ _ _ _ _ _ _ _ _ d11_reapply_same_version d11_reapply_other_version).symm

end SMD.C20

/-! ### axioms -/

#print axioms SMD.C19.d8_ignored_value_lost_witness
#print axioms SMD.C19.d8_ignored_value_lost
#print axioms SMD.C09.d10_version_order_witness
#print axioms SMD.C09.d10_version_order
#print axioms SMD.C20.d11_versioned_reapply_differs_witness
#print axioms SMD.C20.d11_result_depends_on_version_label
