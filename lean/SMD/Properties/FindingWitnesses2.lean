/-
Finding D17 as a theorem of the model: the negation of a property (C02: what another manager owns
survives an apply) on a concrete history, evaluated by the kernel (no `native_decide`, no axiom beyond
propext / Classical.choice / Quot.sound, which enter through `simp` and `omega` in
`SMD/Proofs/SetOpsKernel.lean`).  Same technique as `SMD/Properties/FindingWitnesses.lean`, whose tactics
(`eval_apply`, `eval_update`, `kernel_rfl`) are reused.

World (`SMD/Proofs/FindingWorlds2.lean`): a struct `root` with a numeric `other` and a struct `spec`
holding a numeric `f`, a set `sibl` of numerics and a map `sibm` of numerics; the plain updater
(identity converter, nothing ignored, `returnInputOnNoop = false`), the live object `null` and no managed
fields before the first operation; everything at version "v1".

* D17 (C02): an empty set owned by an updater is lost, with the struct around it and the updater's
  record, when the applier that owned the only other field of that struct stops applying it; an empty
  map at the same place is kept (`d17_owned_empty_list_lost_witness`).
-/
import SMD.Proofs.FindingWorlds2
import SMD.Properties.FindingWitnesses

set_option maxRecDepth 100000

namespace SMD.FW2
open SetTrie
open SMD.FW (plain)

/-! ### history A: `sibl: []` -/

/-- a applies `{other: 1, spec: {f: 1}}` on the empty object: the object is the configuration, a owns
`.other` and `.spec.f` -/
theorem d17_first_apply :
    apply plain sc live0 (tv cfgFull) "v1" [] "a" false = .ok (some (tv cfgFull), mfA) := by
  eval_apply

/-- u updates to `{other: 1, spec: {f: 1, sibl: []}}`: u owns `.spec.sibl` -/
theorem d17_update_list :
    update plain sc (tv cfgFull) (tv objSibl) "v1" mfA "u" = .ok mfAUl := by
  eval_update

/-- a applies `{other: 1}`: the object returned is `{other: 1}` and u has no record any more -/
theorem d17_second_apply_list :
    apply plain sc (tv objSibl) (tv cfgOther) "v1" mfAUl "a" false = .ok (some (tv cfgOther), mfA3) := by
  eval_apply

/-! ### history B: `sibm: {}` -/

/-- u updates to `{other: 1, spec: {f: 1, sibm: {}}}`: u owns `.spec.sibm` -/
theorem d17_update_map :
    update plain sc (tv cfgFull) (tv objSibm) "v1" mfA "u" = .ok mfAUm := by
  eval_update

/-- a applies `{other: 1}`: the object returned is `{other: 1, spec: {sibm: {}}}`, u's record is kept -/
theorem d17_second_apply_map :
    apply plain sc (tv objSibm) (tv cfgOther) "v1" mfAUm "a" false = .ok (some (tv objB3), mfB3) := by
  eval_apply

/-! ### the nodes and the records -/

theorem d17_list_before : Nodes.valueAt sc rootTR objSibl pathSibl = some (.list []) := by
  with_unfolding_all rfl
theorem d17_list_after : Nodes.valueAt sc rootTR cfgOther pathSibl = none := by
  with_unfolding_all rfl
theorem d17_map_before : Nodes.valueAt sc rootTR objSibm pathSibm = some (.map []) := by
  with_unfolding_all rfl
theorem d17_map_after : Nodes.valueAt sc rootTR objB3 pathSibm = some (.map []) := by
  with_unfolding_all rfl

theorem d17_u_before_list : mfGet mfAUl "u" = some ⟨setSibl, "v1", false⟩ := by with_unfolding_all rfl
theorem d17_u_after_list : mfGet mfA3 "u" = none := by with_unfolding_all rfl
theorem d17_u_before_map : mfGet mfAUm "u" = some ⟨setSibm, "v1", false⟩ := by with_unfolding_all rfl
theorem d17_u_after_map : mfGet mfB3 "u" = some ⟨setSibm, "v1", false⟩ := by with_unfolding_all rfl

/-- u owns `.spec.sibl` (history A), `.spec.sibm` (history B) before a's second apply -/
theorem d17_u_owns_list : (mfGet mfAUl "u").map (·.set.has pathSibl) = some true := by
  with_unfolding_all rfl
theorem d17_u_owns_map : (mfGet mfAUm "u").map (·.set.has pathSibm) = some true := by
  with_unfolding_all rfl

end SMD.FW2

/-! ## the witness -/

namespace SMD.C02
open SMD.FW2
open SMD.FW (plain)

/-- **D17.**  Plain updater (identity converter, nothing ignored, `returnInputOnNoop = false`), everything
at v1; live object `null`, no managed fields.

History A.  (1) a applies `{spec: {f: 1}, other: 1}`; (2) u updates to
`{spec: {f: 1, sibl: []}, other: 1}` and comes to own `.spec.sibl`; (3) a applies `{other: 1}` on that
object and those managed fields.  The object (3) returns is `{other: 1}`: the whole of `spec`, with the
empty set u owns, is gone, and u has no record any more.

History B.  The same with the empty map `sibm: {}` in place of the empty set `sibl: []`: the object (3)
returns is `{other: 1, spec: {sibm: {}}}` and u keeps its record `{.spec.sibm}`. -/
theorem d17_owned_empty_list_lost_witness :
    -- history A (1): a's first apply
    apply plain sc ⟨.null, rootTR⟩ ⟨cfgFull, rootTR⟩ "v1" [] "a" false =
      .ok (some ⟨cfgFull, rootTR⟩, [("a", ⟨setFull, "v1", true⟩)]) ∧
    -- history A (2): u's update, u comes to own `.spec.sibl`
    update plain sc ⟨cfgFull, rootTR⟩ ⟨objSibl, rootTR⟩ "v1" [("a", ⟨setFull, "v1", true⟩)] "u" =
      .ok [("a", ⟨setFull, "v1", true⟩), ("u", ⟨setSibl, "v1", false⟩)] ∧
    -- history A (3): a's second apply returns `{other: 1}`, only a's record is left
    apply plain sc ⟨objSibl, rootTR⟩ ⟨cfgOther, rootTR⟩ "v1"
        [("a", ⟨setFull, "v1", true⟩), ("u", ⟨setSibl, "v1", false⟩)] "a" false =
      .ok (some ⟨cfgOther, rootTR⟩, [("a", ⟨setOther, "v1", true⟩)]) ∧
    -- history B (1) is history A (1); (2): u's update, u comes to own `.spec.sibm`
    update plain sc ⟨cfgFull, rootTR⟩ ⟨objSibm, rootTR⟩ "v1" [("a", ⟨setFull, "v1", true⟩)] "u" =
      .ok [("a", ⟨setFull, "v1", true⟩), ("u", ⟨setSibm, "v1", false⟩)] ∧
    -- history B (3): a's second apply returns `{other: 1, spec: {sibm: {}}}`, u's record is kept
    apply plain sc ⟨objSibm, rootTR⟩ ⟨cfgOther, rootTR⟩ "v1"
        [("a", ⟨setFull, "v1", true⟩), ("u", ⟨setSibm, "v1", false⟩)] "a" false =
      .ok (some ⟨objB3, rootTR⟩, [("a", ⟨setOther, "v1", true⟩), ("u", ⟨setSibm, "v1", false⟩)]) ∧
    -- A: u owns `.spec.sibl` before (3); the node is `[]` before (3) and designates nothing after it;
    -- u has no record after it
    (mfGet [("a", ⟨setFull, "v1", true⟩), ("u", ⟨setSibl, "v1", false⟩)] "u").map
        (·.set.has [.field "spec", .field "sibl"]) = some true ∧
    Nodes.valueAt sc rootTR objSibl [.field "spec", .field "sibl"] = some (.list []) ∧
    Nodes.valueAt sc rootTR cfgOther [.field "spec", .field "sibl"] = none ∧
    mfGet [("a", ⟨setOther, "v1", true⟩)] "u" = none ∧
    -- B: u owns `.spec.sibm` before (3); the node is `{}` before and after (3); u's record is unchanged
    (mfGet [("a", ⟨setFull, "v1", true⟩), ("u", ⟨setSibm, "v1", false⟩)] "u").map
        (·.set.has [.field "spec", .field "sibm"]) = some true ∧
    Nodes.valueAt sc rootTR objSibm [.field "spec", .field "sibm"] = some (.map []) ∧
    Nodes.valueAt sc rootTR objB3 [.field "spec", .field "sibm"] = some (.map []) ∧
    mfGet [("a", ⟨setOther, "v1", true⟩), ("u", ⟨setSibm, "v1", false⟩)] "u" =
      some ⟨setSibm, "v1", false⟩ :=
  ⟨d17_first_apply, d17_update_list, d17_second_apply_list, d17_update_map, d17_second_apply_map,
    d17_u_owns_list, d17_list_before, d17_list_after, d17_u_after_list,
    d17_u_owns_map, d17_map_before, d17_map_after, d17_u_after_map⟩

/-- the same in the form "whatever (3) returns in history A, `.spec.sibl` designates nothing in the
object and u has no record", against history B -/
theorem d17_owned_empty_list_lost :
    ∃ (v : Value) (t : TypeRef) (m : Managed),
      apply plain sc (tv objSibl) (tv cfgOther) "v1" mfAUl "a" false = .ok (some ⟨v, t⟩, m) ∧
      (mfGet mfAUl "u").map (·.set.has pathSibl) = some true ∧
      Nodes.valueAt sc rootTR objSibl pathSibl = some (.list []) ∧
      Nodes.valueAt sc rootTR v pathSibl = none ∧
      mfGet m "u" = none :=
  ⟨cfgOther, rootTR, mfA3, d17_second_apply_list,
    d17_u_owns_list, d17_list_before, d17_list_after, d17_u_after_list⟩

end SMD.C02

/-! ### axioms -/

#print axioms SMD.C02.d17_owned_empty_list_lost_witness
#print axioms SMD.C02.d17_owned_empty_list_lost
