/-
Non-vacuity of the property theorems: each `example` below applies one theorem of SMD/Properties/*.lean to
concrete data, every hypothesis discharged by evaluation, and states the conclusion obtained.
Worlds: SMD/Proofs/NonVacuityWorlds.lean (W2, IG, INC, AT, MISS, FAIL, ML) and the D8 / D11 histories of
SMD/Properties/FindingWitnesses.lean.
-/
import SMD.Proofs.NonVacuityWorlds
import SMD.Proofs.LawfulCodecWitness
import SMD.Properties.All
set_option maxRecDepth 100000

open SMD SMD.FW SMD.NV SetTrie

/-! ## C03 -/
namespace SMD.C03

/-- b's first apply (`{f1: {x: 2}}`, forced, over a1's `{f1: {x: 1, y: 1}}`) returns the merge -/
example : ∃ merged, mergeTV sc (tv d8cfg1) (tv cfgX2) = .ok merged ∧
    (some (tv objX2) = some merged ∨ (some (tv objX2) = none ∧ Value.equals (tv d8cfg1).value merged.value = true)) :=
  first_apply_is_merge plain sc (tv d8cfg1) (tv cfgX2) "v1" mfW2 mfW2 "b" true (some (tv objX2)) mfW2b
    w2_rec rfl w2_apply_forced

/-- the same when b has an empty record -/
example : ∃ merged, mergeTV sc (tv d8cfg1) (tv cfgX2) = .ok merged ∧
    (some (tv objX2) = some merged ∨ (some (tv objX2) = none ∧ Value.equals (tv d8cfg1).value merged.value = true)) :=
  apply_with_empty_record_is_merge plain sc (tv d8cfg1) (tv cfgX2) "v1" mfW2e mfW2e "b" true (some (tv objX2)) mfW2b
    ⟨setNone, "v1", true⟩ w2e_rec rfl rfl w2e_apply_forced

end SMD.C03

/-! ## C04 -/
namespace SMD.C04

/-- W1 (a1 owns `.f1.x`, u1 owns `.f1.y`), b changes `.f1.x` unforced: the reported pairs are exactly
(a1, `.f1.x`) -/
example :
    (∀ k p, (∃ q, (k, q) ∈ [("a1", pX)] ∧ Path.equals q p = true) ↔
        (k ≠ "b" ∧ ∃ vs, mfGet mfW1 k = some vs ∧ vs.set.has p = true ∧
          (cmpX.modified.has p = true ∨ cmpX.added.has p = true))) ∧
    ((∃ c, updateCore plain sc (tv d8cfg1) (tv objX2) "v1" mfW1 "b" false = .conflict c) ↔
      ∃ k vs p, k ≠ "b" ∧ mfGet mfW1 k = some vs ∧ vs.set.has p = true ∧
        (cmpX.modified.has p = true ∨ cmpX.added.has p = true)) :=
  have h := conflicts_exact plain sc (tv d8cfg1) (tv objX2) "v1" mfW1 "b" cmpX rfl (fun _ => rfl)
    mfW1_sorted mfW1_wf w_cmpX
  ⟨h.1 _ w1_conflict, h.2⟩

/-- …in particular u1, who owns the unchanged `.f1.y`, is not reported -/
example : ¬ ∃ q, ("u1", q) ∈ [("a1", pX)] ∧ Path.equals q pY = true := by
  rintro ⟨q, hq, _⟩
  simp at hq

example : ([("a1", pX)] : List (String × Path)) ≠ [] ∧
    ∃ r, apply plain sc (tv d8cfg1) (tv cfgX2) "v1" mfW2 "b" true = .ok r :=
  conflict_nonempty_and_forced_ok plain sc (tv d8cfg1) (tv cfgX2) "v1" mfW2 "b" _ w2_apply_conflict

example : ∀ x, x ∈ [("a1", pX)] → x.1 ≠ "b" :=
  conflict_pairs_are_owned_by_others sc (tv d8cfg1) (tv cfgX2) "v1" mfW2 "b" _ plain w2_apply_conflict

example : apply plain sc (tv d8cfg1) (tv cfgX1) "v1" mfW2 "b" true = .ok (none, mfW2s) :=
  unforced_ok_eq_forced plain sc (tv d8cfg1) (tv cfgX1) "v1" mfW2 "b" _ w2_apply_noop

example : apply plain sc (tv d8cfg1) (tv cfgX2) "v1" mfW2 "b" false = .ok (some (tv objX2), mfW2b) ∨
    ∃ c, c ≠ [] ∧ apply plain sc (tv d8cfg1) (tv cfgX2) "v1" mfW2 "b" false = .conflict c :=
  forced_ok_unforced_ok_or_conflict plain sc (tv d8cfg1) (tv cfgX2) "v1" mfW2 "b" _ w2_apply_forced

end SMD.C04

/-! ## C05 -/
namespace SMD.C05

/-- W2, u1 updates `.f1.x`: a1 keeps `.f1.y` … -/
example : (∃ vs', mfGet mfW2u "a1" = some vs' ∧ vs'.set.has pY = true) ↔
    (setXY.has pY = true ∧ cmpX.modified.has pY = false ∧ cmpX.added.has pY = false ∧ cmpX.removed.has pY = false) :=
  update_others_lose_exactly plain sc (tv d8cfg1) (tv objX2) "v1" mfW2 "u1" mfW2u cmpX "a1" ⟨setXY, "v1", true⟩ pY
    rfl (fun _ => rfl) w2_rec mfW2_sorted mfW2_wf w_cmpX w2_update (by decide) rfl
example : ∃ vs', mfGet mfW2u "a1" = some vs' ∧ vs'.set.has pY = true := ⟨_, rfl, by decide⟩

/-- … and loses `.f1.x` (both sides of the equivalence are false) -/
example : (∃ vs', mfGet mfW2u "a1" = some vs' ∧ vs'.set.has pX = true) ↔
    (setXY.has pX = true ∧ cmpX.modified.has pX = false ∧ cmpX.added.has pX = false ∧ cmpX.removed.has pX = false) :=
  update_others_lose_exactly plain sc (tv d8cfg1) (tv objX2) "v1" mfW2 "u1" mfW2u cmpX "a1" ⟨setXY, "v1", true⟩ pX
    rfl (fun _ => rfl) w2_rec mfW2_sorted mfW2_wf w_cmpX w2_update (by decide) rfl
example : cmpX.modified.has pX = true := by decide

/-- u1 gains `.f1.x` -/
example : (∃ vs', mfGet mfW2u "u1" = some vs' ∧ vs'.set.has pX = true) ↔
    ((∃ vs, mfGet mfW2 "u1" = some vs ∧ vs.set.has pX = true ∧ cmpX.removed.has pX = false) ∨
      cmpX.modified.has pX = true ∨ cmpX.added.has pX = true) :=
  update_owner_gains_exactly plain sc (tv d8cfg1) (tv objX2) "v1" mfW2 "u1" mfW2u cmpX pX
    rfl (fun _ => rfl) w2_rec mfW2_sorted mfW2_wf w_cmpX w2_update

/-- the D11 update (u1 adds the item 1 to `sub`; a1 and u1 have records before): u1 owns
`.l[name=c].sub[=1]` afterwards because the comparison reports it added -/
example : (∃ vs', mfGet (mfA1U1 "v1") "u1" = some vs' ∧ vs'.set.has pathSub1 = true) ↔
    ((∃ vs, mfGet (mfA1 "v1") "u1" = some vs ∧ vs.set.has pathSub1 = true ∧ setNone.has pathSub1 = false) ∨
      setNone.has pathSub1 = true ∨ setSub1.has pathSub1 = true) :=
  update_owner_gains_exactly plain sc (tv cfgSub0) (tv objSub01) "v1" (mfA1 "v1") "u1" (mfA1U1 "v1")
    ⟨setNone, setNone, setSub1⟩ pathSub1 rfl (fun _ => rfl) d11_rec0 mfA1_sorted mfA1_wf d11_cmp_update d11_update

/-- W2, b force-applies `{f1: {x: 2}}`: a1 keeps `.f1.y` and loses `.f1.x` -/
example : (∃ vs', mfGet mfW2b "a1" = some vs' ∧ vs'.set.has pY = true) ↔
    (setXY.has pY = true ∧ cmpX.modified.has pY = false ∧ cmpX.added.has pY = false ∧ cmpX.removed.has pY = false) :=
  apply_others_lose_exactly plain sc (tv d8cfg1) (tv cfgX2) (tv objX2) "v1" mfW2 "b" true mfW2b cmpX "a1"
    ⟨setXY, "v1", true⟩ pY rfl (fun _ => rfl) rfl w2_rec mfW2_sorted mfW2_wf w2_apply_forced w_cmpX (by decide) rfl
example : (∃ vs', mfGet mfW2b "a1" = some vs' ∧ vs'.set.has pX = true) ↔
    (setXY.has pX = true ∧ cmpX.modified.has pX = false ∧ cmpX.added.has pX = false ∧ cmpX.removed.has pX = false) :=
  apply_others_lose_exactly plain sc (tv d8cfg1) (tv cfgX2) (tv objX2) "v1" mfW2 "b" true mfW2b cmpX "a1"
    ⟨setXY, "v1", true⟩ pX rfl (fun _ => rfl) rfl w2_rec mfW2_sorted mfW2_wf w2_apply_forced w_cmpX (by decide) rfl

/-- D11, a1 re-applies `{l: [{name: c}]}` at another version (unforced, prune and add-back at work): u1
loses `.l[name=c].sub[=1]`, which the comparison of the live object with the returned one reports removed -/
example : (∃ vs', mfGet (mfDropped "v2") "u1" = some vs' ∧ vs'.set.has pathSub1 = true) ↔
    (setSub1.has pathSub1 = true ∧ setNone.has pathSub1 = false ∧ setNone.has pathSub1 = false ∧
      setSubGone.has pathSub1 = false) :=
  apply_others_lose_exactly plain sc (tv objSub01) (tv cfgBare) (tv cfgBare) "v2" (mfA1U1 "v1") "a1" false
    (mfDropped "v2") ⟨setSubGone, setNone, setNone⟩ "u1" ⟨setSub1, "v1", false⟩ pathSub1
    rfl (fun _ => rfl) rfl d11_rec mfA1U1_sorted mfA1U1_wf d11_reapply_other_version d11_cmp_bare (by decide) rfl
example : setSubGone.has pathSub1 = true := by decide

/-- W2, b applies `{f1: {x: 1}}` (nothing changes, no object returned): a1's record is untouched -/
example : ∃ vs', mfGet mfW2s "a1" = some vs' ∧ vs'.version = "v1" ∧ vs'.applied = true ∧
    ∀ p, vs'.set.has p = setXY.has p :=
  apply_noop_keeps_others plain sc (tv d8cfg1) (tv cfgX1) "v1" mfW2 "b" false mfW2s "a1" ⟨setXY, "v1", true⟩
    rfl (fun _ => rfl) rfl w2_rec mfW2_sorted mfW2_wf mfW2_ne w2_apply_noop (by decide) rfl

/-- D11, a1 re-applies its first configuration after u1's update (a1 has a previous record, so prune runs):
nothing changes and u1's record is untouched -/
example : ∃ vs', mfGet (mfA1U1 "v1") "u1" = some vs' ∧ vs'.version = "v1" ∧ vs'.applied = false ∧
    ∀ p, vs'.set.has p = setSub1.has p :=
  apply_noop_keeps_others plain sc (tv objSub01) (tv cfgSub0) "v1" (mfA1U1 "v1") "a1" false (mfA1U1 "v1") "u1"
    ⟨setSub1, "v1", false⟩ rfl (fun _ => rfl) rfl d11_rec mfA1U1_sorted mfA1U1_wf mfA1U1_ne d11_reapply_noop
    (by decide) rfl

/-- the applier owns exactly the field set of its configuration -/
example : ∃ fs, toFieldSet sc (tv cfgX2) = .ok fs ∧
    recordOf mfW2b "b" =
      (if (applyIgnore plain "v1" fs).isEmpty then none else some ⟨applyIgnore plain "v1" fs, "v1", true⟩) :=
  apply_owner_exact_of_sorted plain sc (tv d8cfg1) (tv cfgX2) "v1" mfW2 "b" true _ mfW2b mfW2_sorted w2_apply_forced

example : ∀ x, x ∈ mfW2b → x.2.set.isEmpty = false :=
  apply_no_empty_record plain sc (tv d8cfg1) (tv cfgX2) "v1" mfW2 "b" true _ mfW2b w2_apply_forced
example : ∀ x, x ∈ mfW2u → x.2.set.isEmpty = false :=
  update_no_empty_record plain sc (tv d8cfg1) (tv objX2) "v1" mfW2 "u1" mfW2u w2_update

/-- a1's record after b's forced apply is a shrunk copy of its record before -/
example : ∃ vs, recordOf mfW2 "a1" = some vs ∧ "v1" = vs.version ∧ true = vs.applied ∧
    ∀ q, setY.has q = true → vs.set.has q = true :=
  apply_others_only_shrink_of_nodup plain sc (tv d8cfg1) (tv cfgX2) "v1" mfW2 mfW2 "b" true _ mfW2b "a1"
    ⟨setY, "v1", true⟩ w2_rec mfW2_wf (by decide) (by decide) w2_apply_forced rfl
example : ∃ vs, recordOf mfW2 "a1" = some vs ∧ "v1" = vs.version ∧ true = vs.applied ∧
    ∀ q, setY.has q = true → vs.set.has q = true :=
  update_others_only_shrink_of_nodup plain sc (tv d8cfg1) (tv objX2) "v1" mfW2 mfW2 "u1" mfW2u "a1"
    ⟨setY, "v1", true⟩ w2_rec mfW2_wf (by decide) (by decide) w2_update rfl
example : ∃ vs, ("a1", vs) ∈ mfW2 ∧ "v1" = vs.version ∧ true = vs.applied ∧
    ∀ q, setY.has q = true → vs.set.has q = true :=
  apply_others_only_shrink_partial plain sc (tv d8cfg1) (tv cfgX2) "v1" mfW2 mfW2 "b" true _ mfW2b "a1"
    ⟨setY, "v1", true⟩ w2_rec mfW2_wf (by decide) w2_apply_forced rfl
example : ∃ vs, ("a1", vs) ∈ mfW2 ∧ "v1" = vs.version ∧ true = vs.applied ∧
    ∀ q, setY.has q = true → vs.set.has q = true :=
  update_others_only_shrink_partial plain sc (tv d8cfg1) (tv objX2) "v1" mfW2 mfW2 "u1" mfW2u "a1"
    ⟨setY, "v1", true⟩ w2_rec mfW2_wf (by decide) w2_update rfl

/-- no record appears for a third manager -/
example : recordOf mfW2b "u1" = none :=
  apply_no_new_manager plain sc (tv d8cfg1) (tv cfgX2) "v1" mfW2 mfW2 "b" true _ mfW2b "u1" w2_rec (by decide)
    w2_apply_forced rfl

/-- u1's record after its update, path by path -/
example :
    let old : SetTrie := ((recordOf mfW2 "u1").map (·.set)).getD SetTrie.empty
    (∀ q, (match recordOf mfW2u "u1" with | some vs => vs.set.has q | none => false) =
      ((old.has q && !cmpX.removed.has q) || cmpX.modified.has q || cmpX.added.has q)) ∧
    (∀ vs, recordOf mfW2u "u1" = some vs → vs.version = "v1" ∧ vs.applied = false) :=
  update_owner_exact_of_nodup plain sc (tv d8cfg1) (tv objX2) "v1" mfW2 mfW2 "u1" mfW2u cmpX rfl w2_rec mfW2_wf
    w_cmpX (by decide) w2_update

/-- the conclusions as plain facts: after u1's update a1 does not own `.f1.x` any more; after a1's re-apply at
another version u1 has lost `.l[name=c].sub[=1]` -/
example : ¬ ∃ vs', mfGet mfW2u "a1" = some vs' ∧ vs'.set.has pX = true := fun h =>
  absurd ((update_others_lose_exactly plain sc (tv d8cfg1) (tv objX2) "v1" mfW2 "u1" mfW2u cmpX "a1"
    ⟨setXY, "v1", true⟩ pX rfl (fun _ => rfl) w2_rec mfW2_sorted mfW2_wf w_cmpX w2_update (by decide) rfl).1 h).2.1
    (by decide)
example : ¬ ∃ vs', mfGet (mfDropped "v2") "u1" = some vs' ∧ vs'.set.has pathSub1 = true := fun h =>
  absurd ((apply_others_lose_exactly plain sc (tv objSub01) (tv cfgBare) (tv cfgBare) "v2" (mfA1U1 "v1") "a1" false
    (mfDropped "v2") ⟨setSubGone, setNone, setNone⟩ "u1" ⟨setSub1, "v1", false⟩ pathSub1
    rfl (fun _ => rfl) rfl d11_rec mfA1U1_sorted mfA1U1_wf d11_reapply_other_version d11_cmp_bare (by decide) rfl).1
    h).2.2.2 (by decide)

/-- …and on any list when the applied set is not empty -/
example : ∃ fs, toFieldSet sc (tv cfgX2) = .ok fs ∧
    ((applyIgnore plain "v1" fs).isEmpty = false → recordOf mfW2b "b" = some ⟨applyIgnore plain "v1" fs, "v1", true⟩) :=
  apply_owner_exact_partial plain sc (tv d8cfg1) (tv cfgX2) "v1" mfW2 "b" true _ mfW2b w2_apply_forced

/-- `ManagedFields.Difference` / `Equals` on the D11 records -/
example : Managed.equals (mfA1U1 "v1") (mfA1U1 "v1") = true := managed_equals_refl _ mfA1U1_sorted mfA1U1_wf
example : Managed.difference (mfA1U1 "v1") (mfA1U1 "v1") = [] :=
  difference_self _ mfA1U1_sorted mfA1U1_wf
example : Managed.difference mfW1 mfW1 = [] :=
  difference_of_equals mfW1 mfW1 mfW1_sorted mfW1_sorted mfW1_wf mfW1_wf (by decide)
example : Managed.equals mfW1 mfW2u = Managed.equals mfW2u mfW1 :=
  managed_equals_symm mfW1 mfW2u mfW1_sorted (by decide) mfW1_wf (by decide)

end SMD.C05

/-! ## C07 -/
namespace SMD.C07

/-- W2, b applies `{f1: {x: 1}}`: the exposing updater returns the unchanged object, the default one `none` -/
example : apply plain sc (tv d8cfg1) (tv cfgX1) "v1" mfW2 "b" false =
    .ok (if Value.equals (tv d8cfg1).value (tv d8cfg1).value then none else some (tv d8cfg1), mfW2s) :=
  noop_signal_exact plain sc (tv d8cfg1) (tv cfgX1) "v1" mfW2 "b" false (tv d8cfg1) mfW2s rfl w2_apply_noop_exposed
example : (if Value.equals (tv d8cfg1).value (tv d8cfg1).value then none else some (tv d8cfg1)) = none := by decide

/-- W2, b force-applies `{f1: {x: 2}}`: the object changes, both updaters return it -/
example : apply plain sc (tv d8cfg1) (tv cfgX2) "v1" mfW2 "b" true =
    .ok (if Value.equals (tv d8cfg1).value (tv objX2).value then none else some (tv objX2), mfW2b) :=
  noop_signal_exact plain sc (tv d8cfg1) (tv cfgX2) "v1" mfW2 "b" true (tv objX2) mfW2b rfl w2_apply_forced_exposed
example : Value.equals (tv d8cfg1).value (tv objX2).value = false := by decide

example : (some (tv d8cfg1)).isSome = true :=
  exposing_returns_object plain sc (tv d8cfg1) (tv cfgX1) "v1" mfW2 "b" false _ mfW2s w2_apply_noop_exposed

example : ∃ res, apply (exposing plain) sc (tv d8cfg1) (tv cfgX1) "v1" mfW2 "b" false = .ok (some res, mfW2s) ∧
    none = (if Value.equals (tv d8cfg1).value res.value then none else some res) :=
  noop_signal_exact_conv plain sc (tv d8cfg1) (tv cfgX1) "v1" mfW2 "b" false none mfW2s rfl w2_apply_noop

example : apply (exposing plain) sc (tv d8cfg1) (tv cfgX2) "v1" mfW2 "b" false = .conflict [("a1", pX)] :=
  (ownership_independent_of_noop_mode plain sc (tv d8cfg1) (tv cfgX2) "v1" mfW2 "b" false _).1 w2_apply_conflict

end SMD.C07

/-! ## C08 -/
namespace SMD.C08

theorem nv_failsAt : FailsAt failingV2 "v2" := fun _ => rfl

/-- z is recorded at "v2", to which the converter cannot convert; b applies at "v1" -/
example : NoObject (apply failingV2 sc (tv d8cfg1) (tv d8cfg2) "v1" mfFail "b" false) ∧
    ∀ c, apply failingV2 sc (tv d8cfg1) (tv d8cfg2) "v1" mfFail "b" false ≠ .conflict c :=
  apply_conversion_failure_surfaces failingV2 sc (tv d8cfg1) (tv d8cfg2) "v1" mfFail "b" false "z"
    ⟨setY, "v2", true⟩ "v2" (by simp [mfFail]) rfl nv_failsAt
/-- the run itself -/
example : apply failingV2 sc (tv d8cfg1) (tv d8cfg2) "v1" mfFail "b" false = .err := fail_apply

example : NoObject (update failingV2 sc (tv d8cfg1) (tv objX2) "v1" mfFail "u1") :=
  update_conversion_failure_surfaces failingV2 sc (tv d8cfg1) (tv objX2) "v1" mfFail "u1" "z"
    ⟨setY, "v2", true⟩ "v2" (by simp [mfFail]) rfl nv_failsAt

example : prune failingV2 sc (tv d8cfg1) mfFail "z" (some ⟨setY, "v2", true⟩) = .err :=
  prune_conversion_failure_surfaces failingV2 sc (tv d8cfg1) mfFail "z" ⟨setY, "v2", true⟩ rfl nv_failsAt

end SMD.C08

/-! ## C19 -/
namespace SMD.C19
open SMD.History

/-- a member of an exclusion set is ignored by it -/
theorem nv_ignored_of_has (ex : SetTrie) (p : Path) (h : ex.has p = true) : ignoredBy ex p = true := by
  have hne : p ≠ [] := by
    intro e; subst e; simp [SetTrie.has] at h
  exact List.any_eq_true.2 ⟨p, NodeLaws.self_mem_prefixes p hne, h⟩

theorem nv_hall : ∀ p, (setY.has p = true ∨ setNone.has p = true ∨ setNone.has p = true) →
    ignoredBy ignoreSet p = true := by
  intro p h
  have he : ∀ q, setNone.has q = false := SetTrie.has_empty
  rcases h with h | h | h
  · exact nv_ignored_of_has _ p (ignoreSet_eq ▸ h)
  · rw [he] at h; cases h
  · rw [he] at h; cases h

/-- IG: a1 owns `.f1.x`; u1 updates (at another version) the ignored `.f1.y` only: a1's record is untouched -/
example : ∃ vs', mfGet d8mf1 "a1" = some vs' ∧ vs'.version = "v1" ∧ vs'.applied = true ∧
    ∀ p, vs'.set.has p = d8set1.has p :=
  update_ignored_only_takes_nothing ignoringAll sc (tv d8cfg1) (tv objY2) "v2" d8mf1 "u1" d8mf1
    ⟨setNone, setY, setNone⟩ ignoreSet "a1" ⟨d8set1, "v1", true⟩ rfl (fun _ => rfl) ignoreSet_wf ig_rec
    d8mf1_sorted d8mf1_wf d8mf1_ne ig_cmp nv_hall ig_update_ignored (by decide) rfl

/-- W2 records (a1 owns `.f1.x` and `.f1.y`), b changes the ignored `.f1.y`, unforced: no conflict
(without the exclusion set the same request conflicts: `ig_core_contrast`) -/
example (c : List (String × Path)) :
    updateCore ignoringAll sc (tv d8cfg1) (tv objY2) "v1" mfW2 "b" false ≠ .conflict c :=
  ignored_only_never_conflicts ignoringAll sc (tv d8cfg1) (tv objY2) "v1" mfW2 "b" ⟨setNone, setY, setNone⟩ ignoreSet c
    rfl (fun _ => rfl) ignoreSet_wf mfW2_wf ig_cmp (fun p h => nv_hall p (h.elim .inl (fun h => .inr (.inl h))))
example : updateCore plain sc (tv d8cfg1) (tv objY2) "v1" mfW2 "b" false = .conflict [("a1", pY)] := ig_core_contrast

/-- IG history: a1 applies `{f1: {x: 1, y: 1}}` at v1, u1 updates to `{f1: {x: 2, y: 2}}` at v2 -/
theorem nv_ig_reach1 : Reachable ignoringAll sc rootTR ⟨d8cfg1, d8mf1⟩ :=
  .step ⟨.null, []⟩ _ .init (.apply ⟨.null, []⟩ d8cfg1 "v1" "a1" false (some (tv d8cfg1)) d8mf1 ig_first_apply)
theorem nv_ig_reach2 : Reachable ignoringAll sc rootTR ⟨objX2Y2, mfU1X⟩ :=
  .step ⟨d8cfg1, d8mf1⟩ _ nv_ig_reach1 (.update ⟨d8cfg1, d8mf1⟩ objX2Y2 "v2" "u1" mfU1X ig_update_both)

/-- u1 changed `.f1.x` and `.f1.y`; no record of the state reached contains the ignored `.f1.y` -/
example : ∀ x, x ∈ mfU1X → ∀ q, x.2.set.has q = true → ignoredBy ignoreSet q = false :=
  reachable_never_owns_ignored ignoringAll sc rootTR ignoreSet ⟨objX2Y2, mfU1X⟩ ignoreSet_wf (fun _ => rfl)
    nv_ig_reach2
example : ∀ x, x ∈ d8mf1 → ∀ q, x.2.set.has q = true → ignoredBy ignoreSet q = false :=
  reachable_never_owns_ignored ignoringAll sc rootTR ignoreSet ⟨d8cfg1, d8mf1⟩ ignoreSet_wf (fun _ => rfl)
    nv_ig_reach1
/-- the conclusion has content: `.f1.y` is ignored and `.f1.x` is owned -/
example : ignoredBy ignoreSet pY = true ∧ ignoredBy ignoreSet pX = false ∧ setX.has pX = true := by decide

example : mfU1X.Pairwise (fun a b => a.1 < b.1) ∧ (∀ x, x ∈ mfU1X → x.2.set.wf = true) ∧
    (∀ x, x ∈ mfU1X → x.2.set.isEmpty = false) :=
  reachable_managed_wellformed ignoringAll sc rootTR ⟨objX2Y2, mfU1X⟩ nv_ig_reach2
    (fun v f h => by simp only [ignoringAll, Option.some.injEq] at h; subst h; exact ignoreSet_wf)

/-- INC history: the same two steps under the include pattern `.f1.x` -/
theorem nv_inc_reach1 : Reachable including sc rootTR ⟨d8cfg1, d8mf1⟩ :=
  .step ⟨.null, []⟩ _ .init (.apply ⟨.null, []⟩ d8cfg1 "v1" "a1" false (some (tv d8cfg1)) d8mf1 inc_first_apply)
theorem nv_inc_reach2 : Reachable including sc rootTR ⟨objX2Y2, mfU1X⟩ :=
  .step ⟨d8cfg1, d8mf1⟩ _ nv_inc_reach1 (.update ⟨d8cfg1, d8mf1⟩ objX2Y2 "v2" "u1" mfU1X inc_update_both)

example : ∀ x, x ∈ mfU1X → ∀ q, x.2.set.has q = true → compatible incPat q = true :=
  reachable_owns_only_included including sc rootTR incPat ⟨objX2Y2, mfU1X⟩ (fun _ => rfl) nv_inc_reach2
/-- the conclusion has content: `.f1.y` (applied by a1, changed by u1) is not compatible with the pattern -/
example : compatible incPat pX = true ∧ compatible incPat pY = false := by decide

example : mfU1X.Pairwise (fun a b => a.1 < b.1) ∧ (∀ x, x ∈ mfU1X → x.2.set.wf = true) ∧
    (∀ x, x ∈ mfU1X → x.2.set.isEmpty = false) :=
  reachable_managed_wellformed including sc rootTR ⟨objX2Y2, mfU1X⟩ nv_inc_reach2
    (fun v f h => by simp only [including, Option.some.injEq] at h; subst h; trivial)

/-- D8, first apply (the exclusion set is in force at v1 only) -/
example : ∀ q, d8set1.has q = true → ignoredBy ignoreSet q = false :=
  apply_actor_never_owns_ignored_of_sorted ignoring sc live0 (tv d8cfg1) "v1" [] "a1" false _ d8mf1 ignoreSet
    ⟨d8set1, "v1", true⟩ rfl ignoreSet_wf .nil d8_first_apply rfl
example : ∀ q, d8set1.has q = true → ignoredBy ignoreSet q = false :=
  apply_actor_never_owns_ignored_partial ignoring sc live0 (tv d8cfg1) "v1" [] "a1" false _ d8mf1 ignoreSet
    ⟨d8set1, "v1", true⟩ rfl ignoreSet_wf
    (fun fs h => by rw [w_fs_d8cfg1] at h; cases h; rw [rdiffS_eq]; decide) d8_first_apply rfl
example : ∀ q, setX.has q = true → ignoredBy ignoreSet q = false :=
  update_actor_never_owns_ignored ignoringAll sc (tv d8cfg1) (tv objX2Y2) "v2" d8mf1 d8mf1 "u1" mfU1X ignoreSet
    ⟨setX, "v2", false⟩ rfl ignoreSet_wf ig_rec d8mf1_wf ig_update_both rfl

/-- the filters on `{.f1.x, .f1.y}` -/
example : (Filter.apply (.exclude ignoreSet) setXY).has pY = (setXY.has pY && !ignoredBy ignoreSet pY) :=
  exclude_filter_spec ignoreSet setXY pY (by decide) ignoreSet_wf
example : (Filter.apply (.exclude ignoreSet) setXY).wf = true := exclude_filter_wf ignoreSet setXY (by decide) ignoreSet_wf
example : (Filter.apply (.include incPat) setXY).has pY = (setXY.has pY && compatible incPat pY) :=
  include_filter_spec incPat setXY pY (by decide) (by simp [pY])
example : (Filter.apply (.include incPat) setXY).wf = true := include_filter_wf incPat setXY (by decide)

end SMD.C19

/-! ## C20 -/
namespace SMD.C20

theorem nv_missingAt : MissingAt missingV0 "v0" := fun _ => rfl

/-- a0 is recorded at the missing version "v0" (and owns `.f1.y`), a1 at "v1" -/
example : ∀ x, x ∈ mfMissLeft → x.2.version ≠ "v0" :=
  reconcile_drops_missing missingV0 sc (tv d8cfg1) mfMiss mfMissLeft "v0" nv_missingAt miss_rec
example : reconcileManaged missingV0 sc (tv d8cfg1) mfMiss = reconcileManaged missingV0 sc (tv d8cfg1) mfMissLeft :=
  reconcile_ignores_missing missingV0 sc (tv d8cfg1) mfMiss "v0" nv_missingAt
/-- b applies `{f1: {y: 2}}` unforced: a0's ownership of `.f1.y` at the missing version does not conflict -/
example : apply missingV0 sc (tv d8cfg1) (tv d8cfg2) "v1" mfMiss "b" false =
    .ok (some (tv objY2), [("a1", ⟨setX, "v1", true⟩), ("b", ⟨setY, "v1", true⟩)]) :=
  (apply_ignores_missing missingV0 sc (tv d8cfg1) (tv d8cfg2) "v1" mfMiss "b" false "v0" nv_missingAt).trans miss_apply
example : update missingV0 sc (tv d8cfg1) (tv objX2) "v1" mfMiss "u1" = .ok [("u1", ⟨setX, "v1", false⟩)] :=
  (update_ignores_missing missingV0 sc (tv d8cfg1) (tv objX2) "v1" mfMiss "u1" "v0" nv_missingAt).trans miss_update

/-! AT: `l` has turned atomic; the record `{.f1.x, .l[name=c], .l[name=c].name, .l[name=c].sub[=0]}` becomes
`{.f1.x, .l}` (`at_first`: reconcile returns `some`) -/

example : ∃ q, q <+: pSub0 ∧ q ≠ [] ∧ setNew.has q = true :=
  reconcile_covers_old scAt setOld setNew rootTR pSub0 setOld_wf at_first (by decide)
example : setOld.has [.field "l"] = true ∨ ∃ r, r ≠ [] ∧ setOld.has ([.field "l"] ++ r) = true :=
  reconcile_new_from_old scAt setOld setNew rootTR [.field "l"] setOld_wf at_first (by decide)
example : setNew.has ([.field "l"] ++ [keyC, .field "name"]) = false :=
  reconcile_nothing_beneath_added scAt setOld setNew rootTR [.field "l"] [keyC, .field "name"] setOld_wf at_first
    (by decide) (by decide) (by simp)
example : reconcileFieldSet scAt setNew rootTR = .ok none :=
  reconcile_idempotent_of_changed scAt setOld setNew rootTR setOld_wf at_first ⟨[.field "l"], by decide⟩
example : reconcileFieldSet scAt setNew rootTR = .ok none ∨
    ∃ fs'', reconcileFieldSet scAt setNew rootTR = .ok (some fs'') ∧ ∀ p, fs''.has p = setNew.has p :=
  reconcile_idempotent_partial scAt setOld setNew rootTR setOld_wf at_first
example : setNew.wf = true := reconcile_wf scAt setOld setNew rootTR setOld_wf at_first
/-- the reconcile step of Apply / Update on two records -/
example : reconcileManaged plain scAt (tv d8cfg1) mfOld = .ok mfNew := at_managed

end SMD.C20

/-! ## C09 -/
namespace SMD.C09

/-- the conflict list for two managers, in either order of iteration -/
example : (conflictsOf [("a1", ⟨setXY, "v1", true⟩), ("u1", ⟨setSub1, "v1", false⟩)]).Perm
    (conflictsOf [("u1", ⟨setSub1, "v1", false⟩), ("a1", ⟨setXY, "v1", true⟩)]) :=
  conflicts_perm _ _ (List.Perm.swap _ _ _)

/-- the D10 records (a1 at v2, u1 at v1) visited in either order: the same per-version union -/
example :
    (match (managedAtVersion (mfA1U1 "v2")).find? (·.1 == "v1") with | some e => e.2.has pathSub1 | none => false) =
    (match (managedAtVersion [("u1", ⟨setSub1, "v1", false⟩), ("a1", ⟨setSub0, "v2", true⟩)]).find? (·.1 == "v1") with
      | some e => e.2.has pathSub1 | none => false) :=
  managedAtVersion_perm (mfA1U1 "v2") _ (List.Perm.swap _ _ _) (by decide) "v1" pathSub1

/-- the entries of the item `{name: c, sub: [0]}` in two orders -/
example : validateFields sc false itemMapT itemEntries = validateFields sc false itemMapT itemEntriesSwapped :=
  validateFields_perm sc false itemMapT _ _ (List.Perm.swap _ _ _)
example : (SetTrie.ofPaths [[.field "name"], [.field "sub", .value (.int 0)], [.field "sub", .value (.int 0)]]).has
      [.field "sub", .value (.int 0)] =
    (SetTrie.ofPaths [[.field "sub", .value (.int 0)], [.field "sub", .value (.int 0)], [.field "name"]]).has
      [.field "sub", .value (.int 0)] :=
  fsFields_perm sc itemMapT itemEntries itemEntriesSwapped (List.Perm.swap _ _ _) _ _ fs_entries fs_entries_swapped _

end SMD.C09

/-! ## C11 -/
namespace SMD.C11

example : (⟨[], [], []⟩ : Cmp).removed = [] ∧ (⟨[], [], []⟩ : Cmp).modified = [] ∧ (⟨[], [], []⟩ : Cmp).added = [] :=
  compare_self_empty sc 6 objSub01 rootTR _ cmp_self
example : (⟨setNone, setNone, setNone⟩ : Comparison).isSame = true :=
  compareTV_self_isSame sc (tv objSub01) _ cmpTV_self
/-- nothing against `{l: [{name: c, sub: [0]}]}`: six added paths, nothing removed or modified -/
example : (⟨[], [], pathsSub0⟩ : Cmp).removed = [] ∧ (⟨[], [], pathsSub0⟩ : Cmp).modified = [] :=
  compare_from_nothing_only_adds sc 6 cfgSub0 rootTR _ cmp_from_nothing
example : (⟨pathsSub0, [], []⟩ : Cmp).added = [] ∧ (⟨pathsSub0, [], []⟩ : Cmp).modified = [] :=
  compare_to_nothing_only_removes sc 6 cfgSub0 rootTR _ cmp_to_nothing
/-- `{l: [{name: c, sub: [0, 1]}]}` against `{l: [{name: c}]}` -/
example : setSubGone.wf = true ∧ setNone.wf = true ∧ setNone.wf = true :=
  compare_sets_wf sc (tv objSub01) (tv cfgBare) _ d11_cmp_bare

end SMD.C11

/-! ## C12 -/
namespace SMD.C12

/-- left a, b, c, e; right d, b, a: merged d, b, c, e, a.  The three items of the right list keep their
order d, b, a … -/
example :
    (restrictTo (itemIds sc lListT lOut) (itemIds sc lListT lR)).length = lR.length ∧
    sameIds (restrictTo (itemIds sc lListT lOut) (itemIds sc lListT lR)) (itemIds sc lListT lR) = true :=
  merge_list_keeps_right_order sc lTR lListT lAtomT lL lR lOut 6 rfl rfl rfl ml_valid_l ml_valid_r
    (by decide) (by decide) ml_merge

/-- … and the left-only items c, e theirs -/
example :
    let leftOnly (xs : List PE) := xs.filter fun x => !(itemIds sc lListT lR).any fun y => PE.equals x y
    sameIds (leftOnly (itemIds sc lListT lOut)) (leftOnly (itemIds sc lListT lL)) = true :=
  merge_list_keeps_left_only_order sc lTR lListT lAtomT lL lR lOut 6 rfl rfl rfl ml_valid_l ml_valid_r
    (by decide) (by decide) ml_merge

/-- the identities involved -/
example : itemIds sc lListT lOut =
    [.key [("name", .str "d")], .key [("name", .str "b")], .key [("name", .str "c")], .key [("name", .str "e")],
     .key [("name", .str "a")]] := by with_unfolding_all rfl
example : (itemIds sc lListT lOut).filter (fun x => !(itemIds sc lListT lR).any fun y => PE.equals x y) =
    [.key [("name", .str "c")], .key [("name", .str "e")]] := by with_unfolding_all rfl

/-- left a, b, c, e; right a, c (a with another `sub`): nothing is added and the left order is kept -/
example : sameIds (itemIds sc lListT lOut2) (itemIds sc lListT lL) = true :=
  merge_list_adds_nothing_keeps_order sc lTR lListT lAtomT lL lR2 lOut2 6 rfl rfl rfl ml_valid_l ml_valid_r2
    (by decide) (by decide) (by decide) ml_merge2

/-- `{x: 1}`, `{y: 2}`, `{x: 3}` of type `pt`: both groupings give `{x: 3, y: 2}` -/
example : Value.equals vBC vBC = true :=
  merge_assoc_maps_of_kindsKept sc ptTR vA vB vC vAB vBC vBC vBC 3 3 3 3
    (ma_valid _ (.inl rfl)) (ma_valid _ (.inr (.inl rfl))) (ma_valid _ (.inr (.inr rfl)))
    (by decide) (by decide) (by decide) (by decide) (by decide) (by decide) (by decide)
    ma_ab ma_ab_c ma_bc ma_a_bc

end SMD.C12

/-! ## C13 -/
namespace SMD.C13

example : ∃ ps, fsV sc rootTR objSub01 = .ok ps :=
  fieldset_ok_of_valid sc rootTR objSub01 w_valid_dup_objSub01

example : ∃ c, cmpNode sc 11 (some cfgSub0) (some objSub01) rootTR = .ok c :=
  compare_ok_of_valid sc rootTR cfgSub0 objSub01 11 w_valid_dup_cfgSub0 w_valid_dup_objSub01
    (by decide) (by decide) (by decide)

example : ∃ out, mergeNode sc 11 (some objSub01) (some cfgSub0) rootTR = .ok (some out) :=
  merge_ok_of_valid sc rootTR objSub01 cfgSub0 11 w_valid_dup_objSub01 w_valid_cfgSub0
    (by decide) (by decide) (by decide)

end SMD.C13

/-! ## C14 -/
namespace SMD.C14

example : removeV sc false rootTR SetTrie.empty cfgSub0 = some cfgSub0 ∨
    (∃ a, sc.resolve rootTR = some a ∧ ((∃ t, a.list = some t ∧ t.rel = "atomic" ∧ cfgSub0.isList = true) ∨
                                         (∃ t, a.map = some t ∧ t.rel = "atomic" ∧ cfgSub0.isMap = true))) :=
  remove_nothing sc rootTR cfgSub0 w_valid_dup_cfgSub0 (by simp [cfgSub0])

example : removeV sc true rootTR SetTrie.empty
    (.map [("l", .list [.map [("name", .str "c"), ("sub", .list [.int 0])]])]) = none :=
  extract_nothing_scalar_or_empty sc rootTR _
    (.mk [.mk "f1" (refTo "pt") none, .mk "l" lTR none] [] TypeRef.zero "") rootAtom rfl rfl (by decide)

example : setSub0.wf = true := fieldset_wf sc (tv cfgSub0) setSub0 w_fs_cfgSub0

end SMD.C14

/-! ## C15 (SMD/Properties/C04Exact.lean) -/
namespace SMD.C15

/-- keyed and indexed items, a scalar leaf `.l[name=a].x` and a leaf `.l[name=b].x.y` beneath a map -/
example : (setFromValue (.map [("l", .list [.map [("name", .str "a"), ("x", .int 1)],
      .map [("name", .str "b"), ("x", .map [("y", .int 2)])], .int 3, .int 3])])).has
      ([.field "l", .key [("name", .str "a")], .field "x"] ++ [.field "y"]) = false :=
  setFromValue_leaves_only_of_distinctElems _ (by decide) [.field "l", .key [("name", .str "a")], .field "x"]
    [.field "y"] (by decide) (by simp)

end SMD.C15

/-! ## C09 (order parameter) -/
namespace SMD.C09

/-- D10: the re-apply evaluated under the identity order is the model's `apply` -/
example : apply plain sc (tv objSub01) (tv cfgBare) "v4" (mfA1U1 "v2") "a1" false =
    .ok (some (tv cfgBare), mfDropped "v4") :=
  (applyOrd_id plain sc (tv objSub01) (tv cfgBare) "v4" (mfA1U1 "v2") "a1" false).symm.trans d10_reapply_key_order

end SMD.C09

/-! ## C16 -/
namespace SMD.C16
open Ser

/-- a document with keys out of order, a repeated key, the marker and an unknown element kind reads as
`{.a, .b, .a[1]}`, a well-formed set -/
example : setDoc.wf = true := read_well_formed stdCodec jDoc setDoc ser_read_doc

example (acc : ReadOut) :
    readMembersWith stdCodec ([("f:a", J.obj [])] ++ ("x:9", J.null) :: [("f:b", J.obj [])]) acc =
      readMembersWith stdCodec ([("f:a", J.obj [])] ++ [("f:b", J.obj [])]) acc :=
  read_skips_unknown stdCodec _ _ "x:9" J.null acc (by with_unfolding_all rfl) (by decide)

/-- a repeated key, the marker, an unknown kind and an associative-list key -/
example : ∃ s, fromJSONWith stdCodec (J.obj [("f:a", J.obj []), (".", J.obj []), ("x:9", J.obj []), ("f:a", J.obj []),
    ("k:{\"name\":\"c\"}", J.obj [])]) = .ok s :=
  read_no_error_without_bad_keys stdCodec _
    (by
      intro x hx
      simp only [List.mem_cons, List.not_mem_nil, or_false] at hx
      rcases hx with rfl | rfl | rfl | rfl | rfl
      · exact .inr (.inl ⟨.field "a", by kernel_rfl⟩)
      · exact .inl rfl
      · exact .inr (.inr (by kernel_rfl))
      · exact .inr (.inl ⟨.field "a", by kernel_rfl⟩)
      · exact .inr (.inl ⟨keyC, by kernel_rfl⟩))
    (by
      intro x hx
      simp only [List.mem_cons, List.not_mem_nil, or_false] at hx
      rcases hx with rfl | rfl | rfl | rfl | rfl <;> rfl)

/-- the concrete codec does not satisfy the hypothesis `Lawful` of `read_emit` (it does not print the zero
path element `invalid`, nor floats outside the printable range, and it re-sorts key fields): the instance of
`read_emit` for the concrete codec is `read_emit_std_of_keysSorted` below -/
example : ¬ Lawful stdCodec := by
  intro h
  obtain ⟨s, hs⟩ := h.total .invalid
  simp [stdCodec, serializePE] at hs

/-- the hypothesis is satisfiable all the same: `LawfulWitness.codec` (SMD/Proofs/LawfulCodecWitness.lean) is
lawful, and `read_emit` applies to a set that the concrete codec cannot round-trip (a key with unsorted
fields, a float, the zero element) -/
example : ∃ j, toJSONWith LawfulWitness.codec
      (.node [.key [("b", .null), ("a", .null)], .value (.float 1 false), .invalid] [(.field "l", .node [keyC] [])]) =
        some j ∧
    ∃ s', fromJSONWith LawfulWitness.codec j = .ok s' ∧ SetTrie.equals s'
      (.node [.key [("b", .null), ("a", .null)], .value (.float 1 false), .invalid] [(.field "l", .node [keyC] [])]) =
        true :=
  read_emit LawfulWitness.codec LawfulWitness.codec_lawful _ (by decide)

/-- the key `[a="x\"y\\z\n<", b=1.5]` is printed as `k:{"a":"x\"y\\z\n<","b":1.5}` and read back as an
equivalent element -/
example : ∃ pe', deserializePE keyEsc = .ok pe' ∧ PE.equals pe' peEsc = true :=
  std_roundtrip_of_keySorted_of_inGoDomain peEsc keyEsc ser_peEsc ser_peEsc_sorted (by decide)

/-- a key whose fields are not in sorted order: both sides of the equivalence are false -/
example : (∃ pe', deserializePE "k:{\"b\":null,\"a\":null}" = .ok pe' ∧
      PE.equals pe' (.key [("b", .null), ("a", .null)]) = true) ↔
    (PE.key [("b", .null), ("a", .null)]).keySorted = true :=
  std_roundtrip_key_iff_sorted_of_inGoDomain [("b", .null), ("a", .null)] _ rfl (by decide)
/-- …and a sorted one: both sides are true -/
example : (∃ pe', deserializePE "k:{\"name\":\"c\"}" = .ok pe' ∧ PE.equals pe' keyC = true) ↔
    keyC.keySorted = true :=
  std_roundtrip_key_iff_sorted_of_inGoDomain [("name", .str "c")] _ rfl (by decide)

example : (PE.key [("a", .int 1), ("b", .str "z")]).keySorted = true := keySorted_of_ascending _ (by decide)
example : (serializePE keyC).isSome = true := std_total_of_noFloat keyC ⟨by decide, by simp [keyC]⟩
example : serializePE peEsc ≠ some "." := std_notDot peEsc

/-- the set `{[a=…, b=1.5], [=3], [2], .l[name=c]}` survives the round trip -/
example : ∃ j, toJSON setEsc = some j ∧ ∃ s', fromJSON j = .ok s' ∧ SetTrie.equals s' setEsc = true :=
  read_emit_std_of_keysSorted_of_inGoDomain setEsc ser_setEsc_wf ser_setEsc_printable ser_setEsc_sorted (by decide)

end SMD.C16

/-! ## C06 (the bookkeeping statements, presence = `NodePresence`) -/
namespace SMD.C06
open SMD.History

theorem nv_owned_cfgSub0 : OwnedIn (NodePresence sc) rootTR cfgSub0 (mfA1 "v1") := by
  intro x hx p hp
  simp only [mfA1, List.mem_cons, List.not_mem_nil, or_false] at hx
  subst hx
  exact w_cfgSub0_present _ w_fs_cfgSub0 p hp

/-- the D11 update: every path owned afterwards designates a node of `{l: [{name: c, sub: [0, 1]}]}` -/
example : OwnedIn (NodePresence sc) rootTR objSub01 (mfA1U1 "v1") :=
  update_keeps_owned_of_compare_facts (NodePresence sc) plain sc rootTR ⟨cfgSub0, mfA1 "v1"⟩ objSub01 "v1" "u1"
    (mfA1U1 "v1") (nodePresence_prefixClosed sc) (compareFacts_nodePresence sc) rfl (fun _ => rfl)
    mfA1_sorted mfA1_wf w_valid_cfgSub0 w_valid_objSub01 nv_owned_cfgSub0 d11_update

/-- a history of two Updates (u0 creates the object, u1 adds an item) -/
theorem nv_upd_reach : ReachableByUpdates plain sc rootTR ⟨objSub01, mfU0U1⟩ :=
  .step ⟨cfgSub0, mfU0⟩ objSub01 "v1" "u1" mfU0U1
    (.step ⟨.null, []⟩ cfgSub0 "v1" "u0" mfU0 .init w_valid_cfgSub0 upd_first) w_valid_objSub01 upd_second

example : validateV sc false rootTR objSub01 = .ok () ∧ ManagedInv mfU0U1 ∧
    OwnedIn (NodePresence sc) rootTR objSub01 mfU0U1 :=
  updates_owned_of_compare_facts (NodePresence sc) plain sc rootTR ⟨objSub01, mfU0U1⟩
    (nodePresence_prefixClosed sc) (compareFacts_nodePresence sc) rfl (fun _ => rfl) w_valid_null nv_upd_reach

/-- a first Apply (W2: b force-applies `{f1: {x: 2}}` over a1's records), with a notion of presence that is not
constantly true — "the path is not the root" — for which every hypothesis can be discharged (the congruence
hypothesis `hcongr` is not available for `NodePresence`; the Apply case for `NodePresence` is
`apply_keeps_owned_nodes_strong` of SMD/Properties/C06Histories.lean, which does not need it) -/
example : OwnedIn (fun _ _ p => p ≠ []) rootTR objX2 mfW2b :=
  first_apply_keeps_owned_of_compare_facts (fun _ _ p => p ≠ []) plain sc rootTR ⟨d8cfg1, mfW2⟩ cfgX2 "v1" "b" true
    (some (tv objX2)) mfW2b
    (fun _ _ _ _ hp _ => hp)
    ⟨fun _ _ _ _ _ _ _ hp => SetTrie.has_true_ne_nil hp, fun _ _ _ _ _ _ _ hp => SetTrie.has_true_ne_nil hp,
      fun _ _ _ _ _ _ _ hl hr => absurd hl hr⟩
    rfl (fun _ => rfl) mfW2_sorted mfW2_wf w_valid_d8cfg1
    (fun merged h => by
      have h' : mergeTV sc (tv d8cfg1) (tv cfgX2) = .ok merged := h
      rw [w2_merge] at h'; cases h'; exact w_valid_objX2)
    (fun _ _ _ _ _ hp => SetTrie.has_true_ne_nil hp)
    (fun _ _ _ _ hp => hp)
    (fun _ _ _ hp => SetTrie.has_true_ne_nil hp) rfl w2_apply_forced

end SMD.C06

/-! ### axioms (propext / Classical.choice / Quot.sound only) -/
#print axioms SMD.NV.w2_apply_forced
#print axioms SMD.NV.ig_update_both
#print axioms SMD.NV.at_first
#print axioms SMD.NV.ser_peEsc
#print axioms SMD.LawfulWitness.codec_lawful
#print axioms SMD.C19.nv_ig_reach2
#print axioms SMD.C06.nv_upd_reach
