/-
Independent reference validator (C13), written from the schema documentation in
`schema/elements.go` — not from the validating walker:

* a reference must resolve; `null` conforms to every non-empty type;
* a scalar conforms when the type has a scalar member of a matching kind;
* a list conforms when the type has a list member and every item conforms to the element type; in an
  associative list every item has an identity — for keyed lists: it is a map and every key field is
  present or has a schema default; for sets: it is a scalar — and identities are pairwise distinct
  unless duplicates are allowed;
* a map conforms when the type has a map member and every entry is a declared field conforming to
  its type, or conforms to the element type if there is one.
-/
import SMD.Model.Schema
import SMD.Model.Path
namespace SMD.Conf

def kindOk (t : String) (v : Value) : Bool :=
  match t with
  | "numeric" => v.isNumeric
  | "string" => v.isString
  | "boolean" => v.isBool
  | "untyped" => v.isScalar
  | _ => false

def atomNonEmpty (a : Atom) : Bool := a.scalar.isSome || a.list.isSome || a.map.isSome

/-- the schema default of a key field of a keyed list's element type -/
def keyFieldDefault (s : Schema) (lt : ListT) (name : String) : Option Value :=
  match s.resolve lt.elementType with
  | some a =>
    (match a.map with
     | some m => (m.findField name).bind (·.default)
     | none => none)
  | none => none

/-- is the element type of the keyed list a map type at all -/
def keyedElemIsMap (s : Schema) (lt : ListT) : Bool :=
  match s.resolve lt.elementType with
  | some a => a.map.isSome
  | none => false

/-- the identity of a member of an associative list, if it has one -/
def identity (s : Schema) (lt : ListT) (item : Value) : Option PE :=
  if lt.keys.isEmpty then
    (if item.isScalar then some (.value item) else none)
  else
    match item with
    | .map m =>
      let vals := lt.keys.map fun k =>
        match lookupField k m with
        | some v => some (k, v)
        | none => if keyedElemIsMap s lt then (keyFieldDefault s lt k).map fun d => (k, d) else none
      if vals.all Option.isSome then some (.key (FieldList.sort (vals.filterMap id))) else none
    | _ => none

/-- pairwise distinct up to `PathElement.Equals` -/
def distinct : List PE → Bool
  | [] => true
  | x :: xs => !xs.any (fun y => PE.equals x y) && distinct xs

mutual
def conforms (s : Schema) (dup : Bool) (tr : TypeRef) : Value → Bool
  | .null => match s.resolve tr with | some a => atomNonEmpty a | none => false
  | .list l =>
    match s.resolve tr with
    | some a =>
      (match a.list with
       | some lt =>
         if lt.rel == "associative" then
           let ids := l.map (identity s lt)
           ids.all Option.isSome && (dup || distinct (ids.filterMap id)) && conformsAll s dup lt.elementType l
         else conformsAll s dup lt.elementType l
       | none => false)
    | none => false
  | .map m =>
    match s.resolve tr with
    | some a =>
      (match a.map with
       | some mt => conformsFields s dup mt m
       | none => false)
    | none => false
  | v =>
    match s.resolve tr with
    | some a =>
      (match a.scalar with
       | some t => kindOk t v
       | none => false)
    | none => false
def conformsAll (s : Schema) (dup : Bool) (tr : TypeRef) : List Value → Bool
  | [] => true
  | v :: vs => conforms s dup tr v && conformsAll s dup tr vs
def conformsFields (s : Schema) (dup : Bool) (mt : MapT) : List (String × Value) → Bool
  | [] => true
  | (k, v) :: rest =>
    (match mt.findField k with
     | some sf => conforms s dup sf.type v
     | none => !mt.elementType.isZero && conforms s dup mt.elementType v) &&
    conformsFields s dup mt rest
end

end SMD.Conf
