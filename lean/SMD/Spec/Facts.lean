/-
Hand-written expectations about the fact tables that `harness/cmd/factgen` regenerates from /repo's
source on every run (`SMD/Generated/*.lean`).  The theorems `SMD.C09.all_map_ranges_covered` and
`SMD.C10.guard_table_admissible` re-check the regenerated tables against these expectations, so a new
map iteration or a new unguarded access in the Go code breaks a proof obligation.
-/
import SMD.Generated.MapRanges
import SMD.Generated.SyncFacts
import SMD.Generated.PoolFacts
namespace SMD.Facts

/-- for every known `range` over a Go map: why its (random) order cannot reach a result -/
def mapRangeTable : List ((String × String × String) × String) := [
  (("fieldpath/managers.go", "ManagedFields.Copy", "lhs"), "builds a map: insertion order irrelevant"),
  (("fieldpath/managers.go", "ManagedFields.Difference", "lhs"), "builds a map, one entry per key"),
  (("fieldpath/managers.go", "ManagedFields.Difference", "rhs"), "builds a map, one entry per key"),
  (("fieldpath/managers.go", "ManagedFields.Equals", "lhs"), "conjunction over entries"),
  (("fieldpath/managers.go", "ManagedFields.String", "lhs"), "debug formatting only (allow-listed; not an output any property orders)"),
  (("fieldpath/set.go", "NewExcludeFilterSetMap", "resetFields"), "builds a map, one entry per key"),
  (("merge/conflict.go", "Conflicts.Error", "m"), "manager names are sorted before printing"),
  (("merge/conflict.go", "ConflictsFromManagers", "sets"), "conflicts are a set of (manager, path) pairs (reading R9): theorem C09.conflicts_perm"),
  (("merge/update.go", "*Updater.addBackOwnedItems", "managedAtVersion"), "sequential add-back per version: correspondence (repeat-call judge) ; identity converter: each step only re-adds owned items"),
  (("merge/update.go", "*Updater.addBackOwnedItems", "managedFields"), "union per version is commutative: theorem C09.managedAtVersion_perm"),
  (("merge/update.go", "*Updater.reconcileManagedFieldsWithSchemaChanges", "managers"), "builds a map, one independent entry per manager"),
  (("merge/update.go", "*Updater.update", "conflicts"), "updates distinct keys independently"),
  (("merge/update.go", "*Updater.update", "managers"), "per-manager conflict/removed sets depend only on that manager's record and version; cache keyed by version"),
  (("merge/update.go", "*Updater.update", "removed"), "updates distinct keys independently"),
  (("value/mapunstructured.go", "mapUnstructuredInterface.IterateUsing", "m"), "source of value-map order: every consumer builds a map / a set or is a conjunction (theorems C09.validateFields_perm, C09.fsFields_perm)"),
  (("value/mapunstructured.go", "mapUnstructuredString.IterateUsing", "m"), "source of value-map order: every consumer builds a map / a set or is a conjunction (theorems C09.validateFields_perm, C09.fsFields_perm)"),
  (("value/reflectcache.go", "*typeReflectCache.update", "currentCacheMap"), "copies a map"),
  (("value/reflectcache.go", "*typeReflectCache.update", "updates"), "copies a map"),
  (("value/reflectcache.go", "convertMapNumbers", "m"), "in-place per key"),
  (("value/reflectcache.go", "typeReflectEntryOf", "fieldEntries"), "collected then sorted by JSON name"),
  (("value/reflectcache.go", "typeReflectEntryOf", "typeEntry.structFields"), "collected then sorted by JSON name")
]

def mapRangeCovered (r : String × String × String) : Bool :=
  mapRangeTable.any (fun e => e.1.1 == r.1 && e.1.2.1 == r.2.1 && e.1.2.2 == r.2.2)

/-- admissible guard contexts per shared field -/
def admissible (a : String × String × String × String × String) : Bool :=
  let (_, fn, field, base, guard) := a
  if field == "Schema.resolvedTypes" then guard == "locked"
  else if field == "typeReflectCache.value" then guard == "atomic"
  else if field == "Map.m" || field == "Schema.m" then
    guard == "once-init" || guard == "after-once" ||
      -- the destination of a copy is a fresh value owned by the caller
      ((fn == "*Map.CopyInto" || fn == "*Schema.CopyInto") && base == "dst") ||
      -- documented "not thread safe", and not called from inside the library (see `copyIntoCallOk`)
      fn == "*Schema.CopyInto"
  else false

/-- the not-thread-safe helpers are only called under the schema lock, and Schema.CopyInto not at all -/
def copyIntoCallOk (c : String × String × String × String) : Bool :=
  let (_, _, callee, guard) := c
  callee == "Map.CopyInto" && guard == "locked"

/-- fields a pooled walker may keep from its previous use, and why that cannot reach a result -/
def poolKeepTable : List ((String × String) × String) := [
  (("compareWalker", "path"), "scratch: re-sliced to the current depth by prepareDescent before every use; the root walker starts from path[:0]"),
  (("mergingWalker", "path"), "scratch, as for compareWalker"),
  (("compareWalker", "spareWalkers"), "free list of child walkers; every field of a child is overwritten by prepareDescent"),
  (("mergingWalker", "spareWalkers"), "as above"),
  (("toFieldSetWalker", "spareWalkers"), "as above"),
  (("validatingObjectWalker", "spareWalkers"), "as above"),
  (("reconcileWithSchemaWalker", "spareWalkers"), "as above"),
  (("reconcileWithSchemaWalker", "isAtomic"), "never written on the pooled (root) walker: only on the children prepareDescent hands out")
]

def poolKeepAllowed (f : String × String × String) : Bool :=
  poolKeepTable.any (fun e => e.1.1 == f.2.1 && e.1.2 == f.2.2)

end SMD.Facts
