/-
The family of Go types over which property C18 compares the reflection wrappers with encoding/json
(DESIGN.md R12): a field is inlined exactly when it is an embedded struct (or pointer to struct)
without a name in its tag — the Kubernetes convention `json:",inline"` on embedded structs —, and
the flattened JSON names of a struct are pairwise distinct (encoding/json resolves repeated names by
depth and tagging or drops them; the library lets the last one win).
-/
import SMD.Model.Reflect
namespace SMD

def GoType.isStructOrPtrStruct : GoType → Bool
  | .struct _ => true
  | .ptr (.struct _) => true
  | _ => false

mutual
/-- the JSON names a list of fields contributes after flattening (the library's view) -/
def fieldNames : List GoField → List String
  | [] => []
  | (.mk goName tagName dash _ inline _ type) :: fs =>
    if dash then fieldNames fs
    else if inline then inlineNames type ++ fieldNames fs
    else (tagName.getD goName) :: fieldNames fs
def inlineNames : GoType → List String
  | .struct inner => fieldNames inner
  | .ptr (.struct inner) => fieldNames inner
  | _ => []
end

mutual
def GoType.inFamily : GoType → Bool
  | .struct fs => fieldsInFamily fs && decide (fieldNames fs).Nodup
  | .ptr t => t.inFamily
  | .slice t => t.inFamily
  | .map t => t.inFamily
  | _ => true
def fieldsInFamily : List GoField → Bool
  | [] => true
  | (.mk _ tagName dash _ inline embedded type) :: fs =>
    (dash || ((inline == (embedded && tagName.isNone)) && (!inline || type.isStructOrPtrStruct) && type.inFamily))
      && fieldsInFamily fs
end

mutual
/-- the dynamic types held by interfaces are in the family too -/
def GoVal.inFamily : GoVal → Bool
  | .iface t v => t.inFamily && v.inFamily
  | .ptr v => v.inFamily
  | .slice l => GoVal.allInFamily l
  | .struct l => GoVal.allInFamily l
  | .map m => GoVal.entriesInFamily m
  | _ => true
def GoVal.allInFamily : List GoVal → Bool
  | [] => true
  | v :: rest => v.inFamily && GoVal.allInFamily rest
def GoVal.entriesInFamily : List (String × GoVal) → Bool
  | [] => true
  | (_, v) :: rest => v.inFamily && GoVal.entriesInFamily rest
end

mutual
/-- Go's typing of data (nil inhabits pointers, slices, maps and interfaces; uints are not negative;
the entries of a map have distinct keys in ascending order, the order in which the harness lists them) -/
def GoVal.hasType : GoType → GoVal → Bool
  | .ptr _, .nil | .slice _, .nil | .map _, .nil | .iface, .nil | .bytes, .nil => true
  | .bool, .bool _ => true
  | .int, .int _ => true
  | .uint, .int i => decide (0 ≤ i)
  | .float64, .float _ _ => true
  | .float32, .float32 _ _ _ => true
  | .string, .str _ => true
  | .bytes, .bytes _ => true
  | .ptr t, .ptr v => GoVal.hasType t v
  | .iface, .iface t v => GoVal.hasType t v
  | .slice t, .slice l => GoVal.allHaveType t l
  | .map t, .map m => GoVal.entriesHaveType t m
  | .struct fs, .struct vals => GoVal.fieldsHaveType fs vals
  | _, _ => false
def GoVal.allHaveType : GoType → List GoVal → Bool
  | _, [] => true
  | t, v :: rest => GoVal.hasType t v && GoVal.allHaveType t rest
def GoVal.entriesHaveType : GoType → List (String × GoVal) → Bool
  | _, [] => true
  | t, (_, v) :: rest => GoVal.hasType t v && GoVal.entriesHaveType t rest
def GoVal.fieldsHaveType : List GoField → List GoVal → Bool
  | [], [] => true
  | (.mk _ _ _ _ _ _ type) :: fs, v :: vs => GoVal.hasType type v && GoVal.fieldsHaveType fs vs
  | _, _ => false
end
mutual
/-- `GoVal.hasTypeB b t v`: `GoVal.hasType t v` and every `uint` inside `v` is below `b` (`b = 2^64`: the range of Go's 64-bit `uint`;
`b = 2^63`: the uints that `int64(uint)` leaves alone) -/
def GoVal.hasTypeB (b : Int) : GoType → GoVal → Bool
  | .ptr _, .nil | .slice _, .nil | .map _, .nil | .iface, .nil | .bytes, .nil => true
  | .bool, .bool _ => true
  | .int, .int _ => true
  | .uint, .int i => decide (0 ≤ i) && decide (i < b)
  | .float64, .float _ _ => true
  | .float32, .float32 _ _ _ => true
  | .string, .str _ => true
  | .bytes, .bytes _ => true
  | .ptr t, .ptr v => GoVal.hasTypeB b t v
  | .iface, .iface t v => GoVal.hasTypeB b t v
  | .slice t, .slice l => GoVal.allHaveTypeB b t l
  | .map t, .map m => GoVal.entriesHaveTypeB b t m
  | .struct fs, .struct vals => GoVal.fieldsHaveTypeB b fs vals
  | _, _ => false
def GoVal.allHaveTypeB (b : Int) : GoType → List GoVal → Bool
  | _, [] => true
  | t, v :: rest => GoVal.hasTypeB b t v && GoVal.allHaveTypeB b t rest
def GoVal.entriesHaveTypeB (b : Int) : GoType → List (String × GoVal) → Bool
  | _, [] => true
  | t, (_, v) :: rest => GoVal.hasTypeB b t v && GoVal.entriesHaveTypeB b t rest
def GoVal.fieldsHaveTypeB (b : Int) : List GoField → List GoVal → Bool
  | [], [] => true
  | (.mk _ _ _ _ _ _ type) :: fs, v :: vs => GoVal.hasTypeB b type v && GoVal.fieldsHaveTypeB b fs vs
  | _, _ => false
end

end SMD
