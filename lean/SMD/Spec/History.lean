/-
Reachable (live object, managed fields) states: everything obtained from the empty object by finitely
many successful Apply / forced Apply / Update steps issued by any managers at any versions with any
valid or invalid arguments (a step exists exactly when the model operation returns `ok`).
-/
import SMD.Model.Updater
namespace SMD.History

structure State where
  live : Value
  managed : Managed

/-- one successful operation of updater `u` on objects of type `tr` under schema `sc` -/
inductive Step (u : Updater) (sc : Schema) (tr : TypeRef) : State → State → Prop
  | apply (st : State) (cfg : Value) (ver mgr : String) (force : Bool) (obj : Option TV) (mf : Managed) :
      SMD.apply u sc ⟨st.live, tr⟩ ⟨cfg, tr⟩ ver st.managed mgr force = .ok (obj, mf) →
      Step u sc tr st ⟨(match obj with | some o => o.value | none => st.live), mf⟩
  | update (st : State) (newObj : Value) (ver mgr : String) (mf : Managed) :
      SMD.update u sc ⟨st.live, tr⟩ ⟨newObj, tr⟩ ver st.managed mgr = .ok mf →
      Step u sc tr st ⟨newObj, mf⟩

/-- reachable from the empty object with nobody owning anything -/
inductive Reachable (u : Updater) (sc : Schema) (tr : TypeRef) : State → Prop
  | init : Reachable u sc tr ⟨.null, []⟩
  | step (a b : State) : Reachable u sc tr a → Step u sc tr a b → Reachable u sc tr b

end SMD.History
