/-
Independent path resolver (the "node view" of DESIGN.md §6): which value, if any, a path designates
in an object of a given type.  Written from the meaning of path elements — a field name selects a map
entry, a key selects the list item whose key fields (schema defaults included) equal it, a value
selects the equal set member, an index selects by position — and independent of every walker.
-/
import SMD.Spec.Conforms
namespace SMD.Nodes

/-- the type of the entry `k` of a map type -/
def entryType (mt : MapT) (k : String) : TypeRef :=
  match mt.findField k with
  | some sf => sf.type
  | none => mt.elementType

/-- the first item of a list that the path element designates -/
def itemAt (s : Schema) (lt : ListT) (pe : PE) : List Value → Option Value
  | [] => none
  | item :: rest =>
    let hit :=
      match pe with
      | .index _ => false
      | _ => lt.rel == "associative" &&
             (match Conf.identity s lt item with
              | some id => PE.equals id pe
              | none => false)
    if hit then some item else itemAt s lt pe rest

/-- one step of resolution: the child designated by `pe` and its type -/
def childAt (s : Schema) (tr : TypeRef) (v : Value) (pe : PE) : Option (TypeRef × Value) :=
  match s.resolve tr with
  | none => none
  | some a =>
    match v, pe with
    | .map m, .field k =>
      (match a.map with
       | some mt => (lookupField k m).map fun x => (entryType mt k, x)
       | none => none)
    | .list l, .index i =>
      (match a.list with
       | some lt => if i < 0 then none else (l[i.toNat]?).map fun x => (lt.elementType, x)
       | none => none)
    | .list l, pe =>
      (match a.list with
       | some lt => (itemAt s lt pe l).map fun x => (lt.elementType, x)
       | none => none)
    | _, _ => none

/-- the value a path designates (`none`: the path designates nothing in this object) -/
def valueAt (s : Schema) : TypeRef → Value → Path → Option Value
  | _, v, [] => some v
  | tr, v, pe :: rest =>
    match childAt s tr v pe with
    | some (tr', v') => valueAt s tr' v' rest
    | none => none

def present (s : Schema) (tr : TypeRef) (v : Value) (p : Path) : Bool := (valueAt s tr v p).isSome

end SMD.Nodes
