/-
Representation invariant of the set trie (`fieldpath.Set`): member and child slices strictly sorted
by `PathElement.Less`, every stored child well formed and non-empty ("empty child nodes are never
stored", which is what makes `Set.Equals` extensional).  Executable, so the driver can also evaluate
it on tries returned by the implementation.
-/
import SMD.Model.SetTrie
namespace SMD

/-- strictly ascending by `PE.less` (adjacent pairs) -/
def sortedPEs : List PE → Bool
  | [] => true
  | [_] => true
  | x :: y :: rest => PE.less x y && sortedPEs (y :: rest)

namespace SetTrie

mutual
def wf : SetTrie → Bool
  | node m c => sortedPEs m && wfChildren c
def wfChildren : Children → Bool
  | [] => true
  | (x, t) :: xs =>
    wf t && !isEmpty t &&
      (match xs with
       | [] => true
       | (y, _) :: _ => PE.less x y) &&
      wfChildren xs
end

end SetTrie
end SMD
